------------------------------ MODULE PokesTrace ------------------------------
(* Binding B for X-pokes: an execution recorded from the real Builder and Skedder is a sequence of events             *)
(*   {"ev": "Header", "prog": [instances], "store": {share: {keys, vals, stamp}}, "ctl": {framer: {desire, period}},   *)
(*    "dn": {framer: bool}}                                                                                            *)
(*   {"ev": "Resolve", "k", "store"}        Act.resolve of instance k returned; the store after it                     *)
(*   {"ev": "Refuse"}                       Builder.build refused the script                                           *)
(*   {"ev": "Tick", "n"}                    Store.changeStamp: the scheduler set the store time to tick n               *)
(*   {"ev": "Sked", "ctl", "dn"}            desires / periods / done flags as found before an act (rewritten by the     *)
(*                                           scheduler and the runners since the last event)                           *)
(*   {"ev": "Act", "k", "raised", "store", "ctl", "dn"}   Act.__call__ of instance k returned (raised = "") or raised   *)
(* TLC decides whether it is a behaviour of Pokes.tla.  Values are coded as in Pokes.tla (None -1000, texts >= 10000). *)
EXTENDS Pokes, TraceBatch

VARIABLES tid, l
tvars == <<vars, tid, l>>

Ev == EvAt(tid, l)
H == EvAt(tid, 1)

TraceInit == /\ tid \in 1..NTraces /\ l = 2
             /\ prog = H.prog /\ store = H.store /\ ctl = H.ctl /\ dn = H.dn
             /\ plan = [k \in 1..Len(H.prog) |-> Unplanned]
             /\ phase = "build" /\ now = NoStamp /\ last = [op |-> "Init", k |-> 0]

Consume(name) == l <= TraceLen(tid) /\ Ev.ev = name /\ l' = l + 1 /\ UNCHANGED tid
Observed == store' = Ev.store /\ ctl' = Ev.ctl /\ dn' = Ev.dn

TResolve == Consume("Resolve") /\ Resolve(Ev.k) /\ store' = Ev.store
TRefuse == Consume("Refuse") /\ (RefuseParse \/ RefuseResolve)
TTick == Consume("Tick") /\ Tick /\ now' = Ev.n
TSked == Consume("Sked") /\ Sked(Ev.ctl, Ev.dn)
TAct == Consume("Act") /\ Ev.raised = "" /\ Acts(Ev.k) /\ Observed
TUnspec == Consume("Act") /\ Ev.raised = "" /\ Unspec(Ev.k, Ev.store[prog[Ev.k].dst]) /\ Observed
TRaise == Consume("Act") /\ Ev.raised # "" /\ BidRaises(Ev.k)

TraceNext == TResolve \/ TRefuse \/ TTick \/ TSked \/ TAct \/ TUnspec \/ TRaise
TraceSpec == TraceInit /\ [][TraceNext]_tvars
TraceOK == TraceConstraint(tid, l)
=============================================================================
