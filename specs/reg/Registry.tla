------------------------------ MODULE Registry ------------------------------
(* Name registries of ioflo.base (property C47): every instance of a registered class gets a    *)
(* name that is unique within its namespace.                                                    *)
(*                                                                                             *)
(* Written from the docstrings and the statement of C47:                                        *)
(*   Registrar "Class that ensures every instance has a unique name"; "if name empty then       *)
(*   provide name", "if provided name must be unique" (ParameterError), "name must be string";  *)
(*   Tasker "The registry class will supply unique name when name is empty by using the         *)
(*   .__class__.__name__ as the default preface to the name" (Frame and Log give their own      *)
(*   preface 'Frame' / 'Log');                                                                  *)
(*   Clear "clears (empties) registry of Names and resets Counter to 0";                        *)
(*   VerifyName "return False if empty or if already in Names, True otherwise";                 *)
(*   Retrieve "return object with name or False if no object by name";                          *)
(*   House ".names = dictonary of names from each name registry", assignRegistries "Point class *)
(*   Names registries dicts and counters to local version in house.  Subsequent creation of     *)
(*   instances will then be registered locally.  Idempotent operation";                         *)
(*   Framer ".frameNames = frame name registry, name space of frame names", assignFrameRegistry *)
(*   "Point Frame class name registry dict and counter to .frameNames and .frameCounter.        *)
(*   Subsequent Frame instance creation with then be registered locally";                       *)
(*   House "also creates .store" (a Store named like the house when none is given);             *)
(*   Log "Logs have their own namespace"; housing.Registries = store, tasker, log.              *)
(* Namespaces: houses (one, global); stores, taskers (taskers, framers, loggers ... together)   *)
(* and logs of a house; frames of a framer.  Each registered class also has a namespace of its  *)
(* own that is current until a house / framer has been assigned, and again after Clear.         *)
(*                                                                                             *)
(* A namespace is identified by <<kind, owner>>: owner "g" (the house registry), "d" (the       *)
(* class's own) or a house name; for frames the owner is <<owner of the tasker namespace,       *)
(* framer name>>, or <<"d", "">> (the Frame class's own), or <<"z", "">> (the frame namespace   *)
(* of a framer that is no longer registered anywhere but is still current).                     *)
(* The namespaces "d" and "z" are part of the state only while they are current: once another   *)
(* one is assigned nothing refers to them any more; likewise the frame namespace of a framer    *)
(* leaves the state when the tasker namespace it is registered in does.                         *)
(*                                                                                             *)
(* What the documentation leaves open stays open here:                                          *)
(*   - WHICH name an automatic creation gets: any name that is fresh in the namespace and       *)
(*     carries the documented preface (the counter and the random suffix are not modelled);     *)
(*     in the complete graph the outcome is a parameter of the step (names of the explicit      *)
(*     universe that look automatic, or a token "~k" standing for any other fresh name);        *)
(*   - whether Clear empties the current namespace in place or installs a new empty one: a      *)
(*     house's / framer's namespace that was current when Clear ran leaves the model (it is not *)
(*     observed nor made current again);                                                        *)
(*   - which namespace is current after a rejected clone.                                       *)
EXTENDS Naturals, Sequences, FiniteSets, TLC

CONSTANTS Classes,        \* classes offered: subset of {"House","Store","Tasker","Framer","Logger","Log","Frame"}
          HouseNames, StoreNames, TaskerNames, LogNames, FrameNames,
                          \* names offered to explicit creation / queries per kind (some look like automatic names)
          MaxMade,        \* bound on the number of registered names (model only)
          MaxExtra,       \* bound on automatic names outside ExplicitNames per namespace (model only)
          Clears,         \* kinds whose registry may be cleared on its own: subset of {"store","tasker","log","frame"}
          ClearAllOffered,\* BOOLEAN: House.Clear() + ClearRegistries() offered
          Clones,         \* BOOLEAN: framer clones offered
          Prunes,         \* BOOLEAN: Framer.prune offered
          Queries,        \* BOOLEAN: VerifyName / Retrieve / non-string names offered
          Closed          \* TRUE (complete graph): automatic names are drawn from AutoCandidates; FALSE (traces): any name

VARIABLES names,    \* [namespace -> set of names registered in it]
          cur,      \* [kind -> owner of the namespace that is current for that kind], kinds store, tasker, log, frame
          res       \* result of the last step
vars == <<names, cur, res>>

Kind(c) == CASE c = "House" -> "house" [] c = "Store" -> "store" [] c = "Log" -> "log" [] c = "Frame" -> "frame"
             [] OTHER -> "tasker"          \* Tasker, Framer, Logger share the tasker namespace
Offered(c) == CASE Kind(c) = "house" -> HouseNames [] Kind(c) = "store" -> StoreNames [] Kind(c) = "log" -> LogNames
                [] Kind(c) = "frame" -> FrameNames [] OTHER -> TaskerNames
ExplicitNames == HouseNames \cup StoreNames \cup TaskerNames \cup LogNames \cup FrameNames
G == <<"house", "g">>
FD == <<"d", "">>         \* owner of the Frame class's own namespace
FZ == <<"z", "">>         \* owner of a forgotten framer's frame namespace that is still current
Z == <<"frame", FZ>>
Own(k) == IF k = "frame" THEN FD ELSE "d"
Space(k) == IF k = "house" THEN G ELSE <<k, cur[k]>>
HouseKinds == {"store", "tasker", "log"}
HouseSpaces(h) == {<<k, h>> : k \in HouseKinds}
FrameSpace(o, f) == <<"frame", <<o, f>>>>
Base == {G, <<"store", "d">>, <<"tasker", "d">>, <<"log", "d">>, <<"frame", FD>>}

\* names that look like automatic names of class c
AutoShaped(c) == {c \o ToString(i) : i \in 1..9}
Extra(i) == "~" \o ToString(i)
Extras == {Extra(i) : i \in 1..MaxExtra}
NExtras(s) == Cardinality(names[s] \cap Extras)
NextExtra(s) == Extra(NExtras(s) + 1)

Put(f, s, v) == [x \in DOMAIN f \cup {s} |-> IF x = s THEN v ELSE f[x]]
PutAll(f, S, v) == [x \in DOMAIN f \cup S |-> IF x \in S THEN v ELSE f[x]]
Drop(f, S) == [x \in DOMAIN f \ S |-> f[x]]
Add(f, s, n) == Put(f, s, f[s] \cup {n})

Created(n) == [t |-> "ok", name |-> n, reg |-> TRUE]     \* reg: the namespace maps the name to exactly the new instance
Rejected == [t |-> "err", e |-> "ParameterError", kept |-> TRUE]  \* kept: every name still maps to the instance it did
CloneRejected == [t |-> "err", e |-> "CloneError", kept |-> TRUE]
Done == [t |-> "done"]
Cleared == [t |-> "cleared"]
Pruned == [t |-> "pruned"]
Bool(b) == [t |-> "bool", v |-> b]
\* number of registered names (model bound)
Size == Cardinality(UNION {{<<s, n>> : n \in names[s]} : s \in DOMAIN names})

Init == /\ names = [s \in Base |-> {}]
        /\ cur = [k \in {"store", "tasker", "log", "frame"} |-> Own(k)]
        /\ res = Done

\* Settling after a step that made other namespaces current or emptied / dropped some (nm, c: names and cur so far):
\*  - the own namespaces "d" / "z" exist only while current;
\*  - a framer's frame namespace exists only while the framer is registered in a tasker namespace of the state;
\*    if it is current at that moment it lives on as "z".
IsOwn(s) == IF s[1] = "frame" THEN s[2] \in {FD, FZ} ELSE (s[1] # "house" /\ s[2] = "d")
OwnGone(nm, c) == {s \in DOMAIN nm : IsOwn(s) /\ c[s[1]] # s[2]}
Orphans(nm) == {s \in DOMAIN nm : /\ s[1] = "frame" /\ s[2] \notin {FD, FZ}
                                   /\ ~(<<"tasker", s[2][1]>> \in DOMAIN nm /\ s[2][2] \in nm[<<"tasker", s[2][1]>>])}
Settle(nm, c) ==
    LET n1 == Drop(nm, OwnGone(nm, c))
        orph == Orphans(n1)
        zomb == <<"frame", c["frame"]>> \in orph
        n2 == IF zomb THEN Put(n1, Z, n1[<<"frame", c["frame"]>>]) ELSE n1 IN
    <<Drop(n2, orph), IF zomb THEN [c EXCEPT !["frame"] = FZ] ELSE c>>
Settled(nm, c) == names' = Settle(nm, c)[1] /\ cur' = Settle(nm, c)[2]

\* registering name n for a new instance of class c.  A house also registers its store (same name) in the current
\* store namespace and brings its own empty namespaces; a framer brings its own empty frame namespace
\* (own = FALSE: an instance the model cannot address later, its namespaces are left out)
StoreName(n) == IF n \in Extras THEN NextExtra(Space("store")) ELSE n
Register(c, n, own) ==
    LET s == Space(Kind(c))
        n1 == Add(names, s, n) IN
    IF c = "House"
    THEN LET n2 == Add(n1, Space("store"), StoreName(n)) IN
         names' = IF own THEN PutAll(n2, HouseSpaces(n), {}) ELSE n2
    ELSE IF c = "Framer" /\ own
    THEN names' = Put(n1, FrameSpace(cur["tasker"], n), {})
    ELSE names' = n1

\* the house's store needs a free name in the current store namespace; creating a house while that name is taken
\* there is not offered (the documentation does not say what remains of the attempt)
HouseStoreFree(c, n) == c = "House" => /\ StoreName(n) \notin names[Space("store")]
                                       /\ (n \in Extras => NExtras(Space("store")) < MaxExtra)
\* a house / framer created anew must not be the owner of a namespace that is still current
OwnerFree(c, n) == /\ c = "House" => \A k \in HouseKinds : cur[k] # n
                   /\ c = "Framer" => <<"frame", cur["frame"]>> # FrameSpace(cur["tasker"], n)

CreateExplicit(c, n) ==
    /\ UNCHANGED cur
    /\ IF n \in names[Space(Kind(c))]
       THEN UNCHANGED names /\ res' = Rejected
       ELSE /\ HouseStoreFree(c, n) /\ OwnerFree(c, n) /\ Size < MaxMade
            /\ Register(c, n, TRUE) /\ res' = Created(n)

\* automatic name: the result n is any fresh name carrying the preface (pre: the harness found the preface on it)
\* (offered in the complete graph only while the model can still name an outcome outside ExplicitNames)
AutoCandidates(c) == IF NExtras(Space(Kind(c))) < MaxExtra /\ (c = "House" => NExtras(Space("store")) < MaxExtra)
                     THEN ((AutoShaped(c) \cap ExplicitNames) \ names[Space(Kind(c))]) \cup {NextExtra(Space(Kind(c)))}
                     ELSE {}
CreateAuto(c, n, pre) ==
    /\ UNCHANGED cur
    /\ Closed => n \in AutoCandidates(c)
    /\ pre /\ n \notin names[Space(Kind(c))] /\ HouseStoreFree(c, n) /\ OwnerFree(c, n) /\ Size < MaxMade
    /\ Register(c, n, n \notin Extras) /\ res' = Created(n)

\* a name that is not a string
CreateBad(c) == Queries /\ UNCHANGED <<names, cur>> /\ res' = Rejected

VerifyName(c, n) == /\ Queries /\ UNCHANGED <<names, cur>>
                    /\ res' = Bool(n # "" /\ n \notin names[Space(Kind(c))])
Retrieve(c, n) == /\ Queries /\ UNCHANGED <<names, cur>>
                  /\ res' = Bool(n \in names[Space(Kind(c))])

\* cls.Clear() of the registry of kind k: the current namespace of that kind is a new, empty own namespace afterwards;
\* the namespace that was current leaves the model (with the framers registered in it, for the tasker registry)
Clear(k) ==
    /\ k \in Clears
    /\ Settled(Put(Drop(names, {<<k, cur[k]>>}), <<k, Own(k)>>, {}), [cur EXCEPT ![k] = Own(k)])
    /\ res' = Cleared

\* House.Clear(); ClearRegistries(): what Builder.build does first.  Houses and their framers are forgotten;
\* the Frame registry is not among the cleared ones: its current namespace keeps its names
ClearAll ==
    /\ ClearAllOffered
    /\ Settled([s \in (Base \ {<<"frame", FD>>}) \cup {<<"frame", cur["frame"]>>} |->
                   IF s[1] = "frame" THEN names[s] ELSE {}],
               [k \in DOMAIN cur |-> IF k = "frame" THEN cur[k] ELSE "d"])
    /\ res' = Cleared

HouseOk(h) == h \in names[G] /\ HouseSpaces(h) \subseteq DOMAIN names
\* h.assignRegistries()
SwitchHouse(h) == /\ HouseOk(h)
                  /\ Settled(names, [k \in DOMAIN cur |-> IF k \in HouseKinds THEN h ELSE cur[k]])
                  /\ res' = Done

FramerOk(o, f) == /\ <<"tasker", o>> \in DOMAIN names /\ f \in names[<<"tasker", o>>]
                  /\ FrameSpace(o, f) \in DOMAIN names
\* framer.assignFrameRegistry() for framer f registered in the tasker namespace owned by o
SwitchFramer(o, f) == /\ FramerOk(o, f)
                      /\ Settled(names, [cur EXCEPT !["frame"] = <<o, f>>])
                      /\ res' = Done

\* framer.clone(name = n) for framer f of house h: the clone is a framer of the same house whatever is current,
\* with frames of the same names in its own namespace, which becomes the current frame namespace
Clone(h, f, n) ==
    /\ Clones /\ h # "d" /\ HouseOk(h) /\ FramerOk(h, f)
    /\ LET sw == [k \in DOMAIN cur |-> IF k \in HouseKinds THEN h ELSE cur[k]] IN
       IF n \in names[<<"tasker", h>>]
       THEN \/ UNCHANGED <<names, cur>> /\ res' = CloneRejected
            \/ Settled(names, sw) /\ res' = CloneRejected
       ELSE /\ Size < MaxMade /\ <<"frame", cur["frame"]>> # FrameSpace(h, n)
            /\ Settled(Put(Add(names, <<"tasker", h>>, n), FrameSpace(h, n), names[FrameSpace(h, f)]),
                       [sw EXCEPT !["frame"] = <<h, n>>])
            /\ res' = Created(n)

\* framer.prune() for framer f registered in the tasker namespace owned by o ("Recursively Prune (destroy) ...",
\* the framer gives up its place).  The documentation does not say that the name is freed, so it may stay
\* registered or be freed; what de-registration may touch is only this framer's own entry in its own namespace:
\* every other namespace - in particular the one that happens to be current - keeps all its names.
Prune(o, f) ==
    /\ Prunes /\ FramerOk(o, f) /\ res' = Pruned
    /\ \/ UNCHANGED <<names, cur>>
       \/ Settled(Put(names, <<"tasker", o>>, names[<<"tasker", o>>] \ {f}), cur)

Next == \/ \E c \in Classes : \E n \in Offered(c) : CreateExplicit(c, n) \/ VerifyName(c, n) \/ Retrieve(c, n)
        \/ \E c \in Classes : \E n \in Offered(c) \cup Extras : CreateAuto(c, n, TRUE)
        \/ \E c \in Classes : CreateBad(c)
        \/ \E k \in {"store", "tasker", "log", "frame"} : Clear(k)
        \/ ClearAll
        \/ \E h \in HouseNames : SwitchHouse(h)
        \/ \E o \in {"d"} \cup HouseNames, f \in TaskerNames : SwitchFramer(o, f)
        \/ \E h \in HouseNames, f \in TaskerNames, n \in TaskerNames : Clone(h, f, n)
        \/ \E o \in {"d"} \cup HouseNames, f \in TaskerNames : Prune(o, f)
Spec == Init /\ [][Next]_vars

(* ---- properties (C47) ---- *)
\* the namespace that is current always exists
CurrentExists == \A k \in DOMAIN cur : <<k, cur[k]>> \in DOMAIN names
\* "d" and "z" exist only while current
OwnOnlyWhileCurrent == \A s \in DOMAIN names : IsOwn(s) => cur[s[1]] = s[2]
\* every framer namespace of the state belongs to a framer registered in a tasker namespace of the state
NoOrphans == Orphans(names) = {}
\* an explicit duplicate / a bad name is rejected and changes no namespace
DuplicateRejectedUnchanged == [][res'.t = "err" => \A s \in DOMAIN names \cap DOMAIN names' : names'[s] = names[s]]_vars
\* a creation only adds names, to namespaces that exist before and after it, and only names that were not there
Grew(s) == names'[s] \ names[s]
Both == DOMAIN names \cap DOMAIN names'
IsCreation == res'.t = "ok" /\ names' # names
CreationIsFresh == [][IsCreation =>
                        /\ \A s \in Both : names[s] \subseteq names'[s] /\ Cardinality(Grew(s)) <= 1
                        /\ \E s \in Both : Grew(s) = {res'.name}]_vars
\* creations go to the namespaces that are current afterwards: another house's / framer's namespaces are untouched
NoCrossHouse == [][IsCreation =>
                     \A s \in Both : names'[s] # names[s] => (s = G \/ s = <<s[1], cur'[s[1]]>> \/ s = <<"store", cur["store"]>>)]_vars
\* switching namespaces and queries never change the content of any namespace
SwitchKeepsNames == [][(res'.t \in {"done", "bool"}) => \A s \in Both : names'[s] = names[s]]_vars
\* de-registration frees at most the pruned framer's own name in its own tasker namespace (and with it the frame
\* namespace of that framer); nothing else loses a name
PruneFreesOnlyOwn == [][res'.t = "pruned" =>
                          \A s \in DOMAIN names : \/ (s \in DOMAIN names' /\ names'[s] = names[s])
                                                   \/ (s[1] = "tasker" /\ s \in DOMAIN names' /\ names'[s] \subseteq names[s]
                                                        /\ Cardinality(names[s] \ names'[s]) = 1)
                                                   \/ s[1] = "frame"]_vars
=============================================================================
