---------------------------- MODULE RegistryTrace ----------------------------
(* Binding B for Registry.tla: a recorded construction history of real House / Store / Tasker / *)
(* Framer / Logger / Log / Frame objects (no FloScript), with namespace switches, clears, clones.*)
(* Names are the actual strings (no tokens: MaxExtra = 0, Closed = FALSE).  Events:              *)
(*   {"ev": "CreateExplicit", "c": class, "n": name, "res": r, "cur": cur}                        *)
(*   {"ev": "CreateAuto", "c": class, "n": the name the instance got, "pre": preface found, ...}  *)
(*   {"ev": "CreateBad", "c": class, ...}  {"ev": "Clear", "k": kind, ...}  {"ev": "ClearAll", ...}*)
(*   {"ev": "SwitchHouse", "h": house, ...}  {"ev": "SwitchFramer", "o": owner, "f": framer, ...}  *)
(*   {"ev": "Clone", "h": house, "f": framer, "n": name, ...}                                     *)
(*   {"ev": "Prune", "o": owner, "f": framer, ...}  (followed by a Read)                           *)
(*   {"ev": "Read", "names": [[kind, owner, [names]], ...], "cur": cur}  every namespace as read   *)
(* "cur" is the namespace owner found current for each kind after the step.                       *)
EXTENDS Registry, TraceBatch

VARIABLES tid, l
tvars == <<vars, tid, l>>
Ev == EvAt(tid, l)

TraceInit == /\ tid \in 1..NTraces /\ l = 2
             /\ names = [s \in Base |-> {}]
             /\ cur = [k \in {"store", "tasker", "log", "frame"} |-> Own(k)]
             /\ res = Done

Logged == res' = Ev.res /\ cur' = Ev.cur
ToSet(q) == {q[i] : i \in 1..Len(q)}
\* the registries as read from the real objects are exactly the model's namespaces
Read == /\ UNCHANGED vars
        /\ cur = Ev.cur
        /\ Len(Ev.names) = Cardinality(DOMAIN names)
        /\ \A i \in 1..Len(Ev.names) : LET e == Ev.names[i] IN
               /\ <<e[1], e[2]>> \in DOMAIN names
               /\ names[<<e[1], e[2]>>] = ToSet(e[3])

Consume(name) == l <= TraceLen(tid) /\ Ev.ev = name /\ l' = l + 1 /\ UNCHANGED tid

TraceNext ==
    \/ Consume("CreateExplicit") /\ CreateExplicit(Ev.c, Ev.n) /\ Logged
    \/ Consume("CreateAuto") /\ CreateAuto(Ev.c, Ev.n, Ev.pre) /\ Logged
    \/ Consume("CreateBad") /\ CreateBad(Ev.c) /\ Logged
    \/ Consume("VerifyName") /\ VerifyName(Ev.c, Ev.n) /\ Logged
    \/ Consume("Retrieve") /\ Retrieve(Ev.c, Ev.n) /\ Logged
    \/ Consume("Clear") /\ Clear(Ev.k) /\ Logged
    \/ Consume("ClearAll") /\ ClearAll /\ Logged
    \/ Consume("SwitchHouse") /\ SwitchHouse(Ev.h) /\ Logged
    \/ Consume("SwitchFramer") /\ SwitchFramer(Ev.o, Ev.f) /\ Logged
    \/ Consume("Clone") /\ Clone(Ev.h, Ev.f, Ev.n) /\ Logged
    \/ Consume("Prune") /\ Prune(Ev.o, Ev.f) /\ Logged
    \/ Consume("Read") /\ Read

TraceSpec == TraceInit /\ [][TraceNext]_tvars
TraceOK == TraceConstraint(tid, l)
=============================================================================
