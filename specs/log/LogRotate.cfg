\* the two-session model-checking configuration of the quick tier (vf/families/logrotate.py generates the others;
\* RetryRefused / StopCycles are set from a probe of the implementation, HSize / RSize from the header text)
SPECIFICATION RSpec
CONSTANTS
  RuleSets = {{"always"}}
  Sels = {"one"}
  Periods = {1}
  MaxTime = 3
  MaxEnv = 1
  MaxQ = 2
  MaxPush = 9
  Restart = FALSE
  Serial = TRUE
  History = TRUE
  Keeps = {0, 2}
  Cycles = {0, 1}
  Sizes = {0, 39}
  Flushes = {2}
  Reuses = {FALSE, TRUE}
  HSize = 27
  RSize = 6
  RetryRefused = FALSE
  StopCycles = "reuse"
  Crashes = "any"
  Sessions = 2
INVARIANT TypeOK
INVARIANT RTypeOK
INVARIANT Contiguous
INVARIANT NewestComplete
INVARIANT HeaderFirst
INVARIANT RotateOnlyAtSize
INVARIANT DurableAfterCrash
PROPERTY RotateOnlyWhenDue
CHECK_DEADLOCK FALSE
