\* the model-checking configuration of the quick tier for the `always` log (vf/families/logrotate.py generates the
\* others; RetryRefused / StopCycles are set from a probe of the implementation, HSize / RSize from the header text)
SPECIFICATION RSpec
CONSTANTS
  RuleSets = {{"always"}}
  Sels = {"one"}
  Periods = {1}
  MaxTime = 4
  MaxEnv = 1
  MaxQ = 2
  MaxPush = 9
  Restart = TRUE
  Serial = TRUE
  History = TRUE
  Keeps = {0, 1, 2}
  Cycles = {0, 1, 2}
  Sizes = {0, 39, 5000}
  Flushes = {2, 4}
  Reuses = {FALSE, TRUE}
  HSize = 27
  RSize = 6
  RetryRefused = FALSE
  StopCycles = "reuse"
  Crashes = "any"
INVARIANT TypeOK
INVARIANT RTypeOK
INVARIANT Contiguous
INVARIANT NewestComplete
INVARIANT HeaderFirst
INVARIANT RotateOnlyAtSize
INVARIANT DurableAfterCrash
PROPERTY RotateOnlyWhenDue
CHECK_DEADLOCK FALSE
