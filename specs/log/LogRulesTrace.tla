---------------------------- MODULE LogRulesTrace ----------------------------
(* Binding B for LogRules.tla: a recorded execution of a real Logger with one Log per rule,    *)
(* driven the way the skedder drives it, is a sequence of events.  The first event is the       *)
(* header {"ev": "Init", "logs": [rules], "sel": "all"|"one", "period": ticks}; then             *)
(*   {"ev": "Write", "s": share, "f": field, "v": value}     {"ev": "PushS", "v": element}        *)
(*   {"ev": "PushD", "v": element}    {"ev": "Bid", "c": "stop"|"start"}    {"ev": "Tick"}         *)
(*   {"ev": "Slot", "out": {rule: [entries appended to that log's file]}, "status", "desire",     *)
(*                  "sq": [list after the turn], "dq": [deck after the turn]}                     *)
(* Everything observed at a Slot must be exactly what the specification's action produces.      *)
EXTENDS LogRules, TraceBatch

CONSTANT Tolerate   \* TRUE: after printing <<"KF", tid, ix>> keep following an execution that shows the
                    \* deviation recorded as an open finding (SlotSilent); such executions are reported, not accepted silently

VARIABLES tid, ix
tvars == <<vars, tid, ix>>

Ev == EvAt(tid, ix)
SetOf(q) == {q[i] : i \in 1..Len(q)}

TraceInit == /\ tid \in 1..NTraces
             /\ ix = 2
             /\ LET h == EvAt(tid, 1) IN InitWith([logs |-> SetOf(h.logs), sel |-> h.sel, period |-> h.period])

Observed == /\ out' = Ev.out
            /\ status' = Ev.status /\ desire' = Ev.desire
            /\ sq' = Ev.sq /\ dq' = Ev.dq

Consume(name) == ix <= TraceLen(tid) /\ Ev.ev = name /\ ix' = ix + 1 /\ UNCHANGED tid

TraceNext ==
    \/ Consume("Write") /\ Write(Ev.s, Ev.f, Ev.v)
    \/ Consume("PushS") /\ PushS(Ev.v)
    \/ Consume("PushD") /\ PushD(Ev.v)
    \/ Consume("Bid") /\ Bid(Ev.c)
    \/ Consume("Tick") /\ Tick
    \/ Consume("Slot") /\ Slot /\ Observed
    \/ Consume("Slot") /\ Tolerate /\ SlotSilent /\ Observed /\ PrintT(<<"KF", tid, ix>>)

TraceSpec == TraceInit /\ [][TraceNext]_tvars
TraceOK == TraceConstraint(tid, ix)
=============================================================================
