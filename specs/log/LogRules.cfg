\* the model-checking configuration of the quick tier (vf/families/logrules.py generates the others:
\* single-rule loggers without History for the graphs to replay, all seven logs for -simulate)
SPECIFICATION Spec
CONSTANTS
  RuleSets = {{"always", "change", "never", "once", "update"}, {"deck", "streak"}}
  Sels = {"all", "one"}
  Periods = {0, 2}
  MaxTime = 2
  MaxEnv = 1
  MaxQ = 2
  MaxPush = 9
  Restart = TRUE
  Serial = FALSE
  History = TRUE
INVARIANT TypeOK
INVARIANT OnceOne
INVARIANT AlwaysPerRun
INVARIANT NeverNothing
INVARIANT UpdateFirstThenEveryUpdate
INVARIANT ChangeFirstThenOnDiff
INVARIANT StreakFifoOnce
INVARIANT DeckFifoOnce
INVARIANT TimesAreRunTimes
INVARIANT OneHeaderPerFile
PROPERTY QueuesEmptied
PROPERTY OnlyLoggerWrites
CHECK_DEADLOCK FALSE
