------------------------------ MODULE LogRotate ------------------------------
(* Rotation and flushing of log files (property C23), on top of the rules model LogRules.tla.   *)
(* Written from the docstrings of Logger / Log (keep, cyclePeriod, fileSize, flushPeriod, reuse) *)
(* the builder verb `logger ... [flush s] [keep n] [cycle s] [size b] [reuse]` and the property.  *)
(*                                                                                             *)
(* Every log l of the logger keeps  ret[l] = << main file, copy 1, ..., copy keep >>  (a file is *)
(* the sequence of its entries: header, records).  What log l appends in the logger's turn is   *)
(* out'[l] of LogRules.  After the logs have written, a logger run                               *)
(*   - flushes when flushPeriod has passed since the last flush;                                 *)
(*   - when keep > 0 and cyclePeriod has passed since the last attempt, rotates every log whose  *)
(*     main file has reached fileSize bytes (0 = always): copy k becomes copy k+1, the oldest    *)
(*     copy is dropped, the main file becomes copy 1 and a new main file starts with the header. *)
(* STOP logs a last time and closes the files (everything written is then on disk).             *)
(* dur[l][k] is the length of the prefix of ret[l][k] that is certainly on disk: everything     *)
(* written in earlier runs at a periodic flush, everything at a rotation or a close.  (More may  *)
(* be on disk: dur is a lower bound, the files are the upper bound.)  Crash kills the process:  *)
(* the files keep at least their durable prefixes - the model keeps exactly those.              *)
(* cyclePeriod = 0 means no rotation (keep is then taken as 0).                                  *)
(*                                                                                             *)
(* Sessions: when a process has ended - its logger stopped, or it was killed - NewSession starts   *)
(* a NEW process with the same logger script (fresh Logger / Log objects, store time 0 again).   *)
(* With `reuse` the logger's directory is the same one: the files are what the earlier process   *)
(* left on disk, a file that holds anything is appended to without a second header, an empty or   *)
(* missing main file is a new file and gets the header; rotation goes on over the same copies.    *)
(* Without `reuse` the new process gets a fresh directory and the old one (`old`) stays as it is. *)
(*                                                                                             *)
(* Two points are not fixed by the documentation and are parameters determined by a probe of     *)
(* the implementation: whether a rotation refused for size is tried again at the next run or     *)
(* only after another cyclePeriod (RetryRefused), and whether STOP itself rotates (StopCycles:   *)
(* "never", "reuse" = when keep > 0 and reuse, "always" = when keep > 0), size permitting.       *)
EXTENDS LogRules

CONSTANTS Keeps, Cycles, Sizes, Flushes, Reuses,   \* the rotation configuration is chosen initially from these
          HSize, RSize,     \* bytes of a header / of a record (equal for all logs of a configuration)
          RetryRefused, StopCycles,
          Sessions,         \* number of processes that run the logger script one after the other (1 or 2)
          Crashes           \* "never" | "any": the process may be killed at any point | "point": it is killed at the
                            \* point chosen initially (a tick, before the environment's first action or right after the logger's turn)

VARIABLES rcfg,             \* [keep, cycle, size, flush, reuse]
          ret, dur,
          cstamp, fstamp,   \* time of the last rotation attempt / flush
          crashed,
          session,          \* 1 .. Sessions
          old,              \* files the previous process left in its own directory (no reuse); never touched again
          cp,               \* the chosen crash point [t, ph] (Crashes = "point")
          rotated, refused, flushed,   \* what the last step did (for coverage guards and RotateOnlyAtSize)
          stream,           \* History: stream[l] = all records log l ever wrote, in order
          fl,               \* History: fl[l] = number of records of stream[l] written before the most recent flush
          rotmark,          \* History: rotmark[l] = Len(stream[l]) at the last rotation of l
          dropped           \* History: dropped[l] = number of records of stream[l] rotated out of retention

rotVars == <<rcfg, ret, dur, cstamp, fstamp, crashed, session, old, cp, rotated, refused, flushed, stream, fl, rotmark, dropped>>
allVars == <<vars, rotVars>>

NoCP == [t |-> 0 - 1, ph |-> "none"]
AtCP == Crashes = "point" /\ now = cp.t /\ phase = cp.ph
Alive == ~crashed /\ ~AtCP
EffKeep == IF rcfg.cycle = 0 THEN 0 ELSE rcfg.keep
NFiles == EffKeep + 1
Bytes(f) == LET b[i \in 0..Len(f)] == IF i = 0 THEN 0 ELSE b[i - 1] + (IF f[i].h THEN HSize ELSE RSize) IN b[Len(f)]
RecsOf(f) == SelectSeq(f, LAMBDA e : ~e.h)
Max(a, b) == IF a > b THEN a ELSE b
Reached(f) == Bytes(f) >= rcfg.size

\* configurations that differ: without rotation keep / size do not matter
ValidRot(c) == /\ (c.keep = 0 => c.size = 0 /\ c.cycle # 0 /\ \A y \in Cycles : y = 0 \/ c.cycle <= y)
               /\ (c.cycle = 0 => c.size = 0 /\ c.keep # 0 /\ \A k \in Keeps : k = 0 \/ c.keep <= k)

RInit == /\ Init
         /\ rcfg \in {c \in [keep : Keeps, cycle : Cycles, size : Sizes, flush : Flushes, reuse : Reuses] : ValidRot(c)}
         /\ ret = [l \in cfg.logs |-> [k \in 1..NFiles |-> <<>>]]
         /\ dur = [l \in cfg.logs |-> [k \in 1..NFiles |-> 0]]
         /\ cstamp = 0 /\ fstamp = 0 /\ crashed = FALSE
         /\ session = 1 /\ old = [l \in cfg.logs |-> <<>>]
         /\ cp \in (IF Crashes = "point" THEN [t : 0..MaxTime, ph : {"pre", "post"}] ELSE {NoCP})
         /\ rotated = 0 /\ refused = FALSE /\ flushed = FALSE
         /\ stream = [l \in cfg.logs |-> <<>>] /\ fl = [l \in cfg.logs |-> 0] /\ rotmark = [l \in cfg.logs |-> 0] /\ dropped = [l \in cfg.logs |-> 0]

\* the file set after a rotation: new main with the header, old main as copy 1, the oldest copy dropped
Rot(fs) == [k \in 1..NFiles |-> IF k = 1 THEN <<Hdr>> ELSE fs[k - 1]]
RotDur(fs, d) == [k \in 1..NFiles |-> IF k = 1 THEN 0 ELSE IF k = 2 THEN Len(fs[1]) ELSE d[k - 1]]
FullDur(fs) == [k \in 1..NFiles |-> Len(fs[k])]

\* what a logger run does to the files of log l, after the log has appended app
\* result: [f |-> files, d |-> durable lengths, n |-> rotations, r |-> refused]
RunFiles(l, app, flushNow, cycleNow, stopping) ==
    LET m0 == ret[l][1] \o app
        f0 == [ret[l] EXCEPT ![1] = m0]
        d0 == [dur[l] EXCEPT ![1] = IF flushNow THEN Max(@, Len(ret[l][1])) ELSE @]
        rot1 == cycleNow /\ Reached(m0)
        f1 == IF rot1 THEN Rot(f0) ELSE f0
        d1 == IF rot1 THEN RotDur(f0, d0) ELSE d0
        stopRot == /\ stopping /\ EffKeep > 0
                   /\ (StopCycles = "always" \/ (StopCycles = "reuse" /\ rcfg.reuse))
        rot2 == stopRot /\ Reached(f1[1])
        f2 == IF rot2 THEN Rot(f1) ELSE f1
        d2 == IF stopping THEN FullDur(f2) ELSE IF rot2 THEN RotDur(f1, d1) ELSE d1
    IN [f |-> f2, d |-> d2, n |-> (IF rot1 THEN 1 ELSE 0) + (IF rot2 THEN 1 ELSE 0),
        r |-> (cycleNow /\ ~rot1) \/ (stopRot /\ ~rot2),
        x |-> (IF rot1 THEN Len(RecsOf(f0[NFiles])) ELSE 0) + (IF rot2 THEN Len(RecsOf(f1[NFiles])) ELSE 0)]

RSlot ==
    /\ Alive /\ Slot
    /\ IF ~LogRun
         THEN /\ rotated' = 0 /\ refused' = FALSE /\ flushed' = FALSE
              /\ UNCHANGED <<rcfg, ret, dur, cstamp, fstamp, crashed, session, old, cp, stream, fl, rotmark, dropped>>
         ELSE LET flushNow == now - fstamp >= rcfg.flush
                  cycleNow == EffKeep > 0 /\ now - cstamp >= rcfg.cycle
                  stopping == desire = "stop"
                  R == [l \in cfg.logs |-> RunFiles(l, out'[l], flushNow, cycleNow, stopping)]
                  allRot == \A l \in cfg.logs : Reached(ret[l][1] \o out'[l])
              IN /\ ret' = [l \in cfg.logs |-> R[l].f]
                 /\ dur' = [l \in cfg.logs |-> R[l].d]
                 /\ fstamp' = IF flushNow THEN now ELSE fstamp
                 /\ cstamp' = IF cycleNow /\ (allRot \/ ~RetryRefused) THEN now ELSE cstamp
                 /\ rotated' = R[CHOOSE l \in cfg.logs : \A m \in cfg.logs : R[m].n <= R[l].n].n
                 /\ refused' = \E l \in cfg.logs : R[l].r
                 /\ flushed' = flushNow
                 /\ stream' = H([l \in cfg.logs |-> stream[l] \o RecsOf(out'[l])], stream)
                 /\ fl' = H([l \in cfg.logs |->
                               IF stopping \/ R[l].n > 0 THEN Len(stream[l]) + Len(RecsOf(out'[l]))
                               ELSE IF flushNow THEN Len(stream[l]) ELSE fl[l]], fl)
                 /\ rotmark' = H([l \in cfg.logs |-> IF R[l].n > 0 THEN Len(stream[l]) + Len(RecsOf(out'[l])) ELSE rotmark[l]], rotmark)
                 /\ dropped' = H([l \in cfg.logs |-> dropped[l] + R[l].x], dropped)
                 /\ UNCHANGED <<rcfg, crashed, session, old, cp>>

Idle == rotated' = 0 /\ refused' = FALSE /\ flushed' = FALSE
        /\ UNCHANGED <<rcfg, ret, dur, cstamp, fstamp, crashed, session, old, cp, stream, fl, rotmark, dropped>>

\* the record stream of a streak log: some elements are queued before the logger's turn (the placement of writes around
\* the logger is the subject of LogRules; here the environment only varies how much each run appends)
RPushS == Alive /\ phase = "pre" /\ PushS(0) /\ Idle
RBid(c) == Alive /\ Bid(c) /\ Idle
RTick == Alive /\ Tick /\ Idle

\* the process dies: each file keeps (at least) its durable prefix
Crash == /\ ~crashed /\ (Crashes = "any" \/ AtCP) /\ crashed' = TRUE
         /\ ret' = [l \in cfg.logs |-> [k \in 1..NFiles |-> SubSeq(ret[l][k], 1, dur[l][k])]]
         /\ UNCHANGED <<vars, rcfg, dur, cstamp, fstamp, session, old, cp, rotated, refused, flushed, stream, fl, rotmark, dropped>>

RECURSIVE Cat(_, _)
Cat(fs, k) == IF k = 0 THEN <<>> ELSE RecsOf(fs[k]) \o Cat(fs, k - 1)     \* records oldest copy first, main file last
RetRecs(l) == Cat(ret[l], NFiles)
DurRecs(l) == Cat([k \in 1..NFiles |-> SubSeq(ret[l][k], 1, dur[l][k])], NFiles)
IsSuffix(s, t) == Len(s) <= Len(t) /\ s = SubSeq(t, Len(t) - Len(s) + 1, Len(t))

\* a new process runs the same logger script after the previous one ended (logger stopped after having run, or killed)
Ended == crashed \/ (status = "stopped" /\ desire = "stop" /\ \E l \in cfg.logs : exists[l])
NewSession ==
    /\ session < Sessions /\ Ended /\ session' = session + 1
    /\ crashed' = FALSE /\ cp' = NoCP
    \* fresh store, shares, Logger and Log objects
    /\ now' = 0 /\ phase' = "pre" /\ envn' = 0
    /\ val' = [s \in Shares |-> [f \in FieldsOf(s) |-> 0]] /\ sq' = <<>> /\ dq' = <<>>
    /\ status' = "stopped" /\ desire' = "start" /\ retime' = 0
    /\ logged' = [l \in cfg.logs |-> FALSE] /\ dirty' = {} /\ late' = {} /\ urec' = FALSE /\ last' = <<>>
    /\ out' = NoOut
    /\ cstamp' = 0 /\ fstamp' = 0 /\ rotated' = 0 /\ refused' = FALSE /\ flushed' = FALSE
    \* the files
    /\ IF rcfg.reuse
         THEN /\ exists' = [l \in cfg.logs |-> ret[l][1] # <<>>]       \* a main file that holds nothing is a new file
              /\ dur' = [l \in cfg.logs |-> FullDur(ret[l])]             \* what the dead process left is on disk
              /\ stream' = H([l \in cfg.logs |-> SubSeq(stream[l], 1, dropped[l] + Len(RetRecs(l)))], stream)  \* the rest is lost
              /\ fl' = H([l \in cfg.logs |-> dropped[l] + Len(RetRecs(l))], fl)
              /\ UNCHANGED <<ret, old, rotmark, dropped>>
         ELSE /\ exists' = [l \in cfg.logs |-> FALSE]
              /\ old' = ret
              /\ ret' = [l \in cfg.logs |-> [k \in 1..NFiles |-> <<>>]]
              /\ dur' = [l \in cfg.logs |-> [k \in 1..NFiles |-> 0]]
              /\ stream' = H([l \in cfg.logs |-> <<>>], stream) /\ fl' = H([l \in cfg.logs |-> 0], fl)
              /\ rotmark' = H([l \in cfg.logs |-> 0], rotmark) /\ dropped' = H([l \in cfg.logs |-> 0], dropped)
    /\ UNCHANGED <<cfg, rcfg, pushed, files, hist, pushS, pushD>>

RNext == NewSession \/ RPushS \/ (\E c \in {"stop", "start"} : RBid(c)) \/ RSlot \/ RTick \/ Crash
RSpec == RInit /\ [][RNext]_allVars

(* ------------------------------ properties ------------------------------ *)

RTypeOK == /\ \A l \in cfg.logs : \A k \in 1..NFiles : dur[l][k] <= Len(ret[l][k])
           /\ \A l \in cfg.logs : \A k \in 2..NFiles : dur[l][k] = Len(ret[l][k])      \* copies are complete on disk

\* the retained files, oldest to newest, hold one contiguous stretch of the record stream, in order, each record
\* once, up to the newest record
Contiguous == History /\ ~crashed => \A l \in cfg.logs :
    IsSuffix(RetRecs(l), stream[l]) /\ Len(RetRecs(l)) = Len(stream[l]) - dropped[l]
\* the newest file holds every record since the last rotation
NewestComplete == History /\ ~crashed => \A l \in cfg.logs :
    RecsOf(ret[l][1]) = SubSeq(stream[l], rotmark[l] + 1, Len(stream[l]))
\* every file that holds anything starts with the header and has no other
HeaderFirst == ~crashed => \A l \in cfg.logs : \A k \in 1..NFiles :
    ret[l][k] # <<>> => ret[l][k][1].h /\ \A i \in 2..Len(ret[l][k]) : ~ret[l][k][i].h
\* a rotated file had reached the size threshold
RotateOnlyAtSize == ~crashed => \A l \in cfg.logs : \A k \in 2..NFiles : ret[l][k] # <<>> => Reached(ret[l][k])
\* no rotation without keep copies, a cycle period, and before the period has passed (except at STOP, see StopCycles)
RotateOnlyWhenDue == [][rotated' > 0 /\ ~crashed' =>
                          /\ EffKeep > 0
                          /\ (now - cstamp >= rcfg.cycle \/ desire = "stop")]_allVars
\* whenever the process dies, every record written before the most recent flush (and not rotated away) is in the files
DurableAfterCrash == History => \A l \in cfg.logs :
    LET kept == IF crashed THEN RetRecs(l) ELSE DurRecs(l)
        b == dropped[l]
    IN  kept = SubSeq(stream[l], b + 1, b + Len(kept)) /\ b + Len(kept) >= fl[l]
=============================================================================
