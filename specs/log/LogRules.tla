------------------------------ MODULE LogRules ------------------------------
(* Log rules of ioflo.base.logging (property C22).  Written from the docstrings of Logger and  *)
(* Log, the builder verbs `logger`, `log`, `loggee` and the statement of the property.          *)
(*                                                                                             *)
(* A house ticks (Tick).  Within one tick the environment (other taskers) acts BEFORE the       *)
(* logger's turn (phase "pre") and AFTER it (phase "post"): it writes share fields with the     *)
(* same or a different value (Write), appends to the list logged by the streak log (PushS),     *)
(* pushes an entry on the deck logged by the deck log (PushD) and asks the logger to stop or    *)
(* start again (Bid: what `bid stop <logger>` does - it sets the tasker's desire).              *)
(* Slot is the logger's turn: the skedder sends the logger's desired control to its runner when *)
(* the logger is due (retime <= now, then retime += period):                                    *)
(*    START  (re)opens the files - a file that did not exist gets ONE header -, prepares and     *)
(*           logs once;  RUN logs;  STOP (unless already stopped) logs a last time and closes.  *)
(* One log per rule; a logger run makes every log apply its rule:                               *)
(*    once    one record, at its first run          always  one record per run                  *)
(*    update  first run, then whenever a loggee was updated after the log's previous record     *)
(*    change  first run, then whenever a logged field differs from its last logged value        *)
(*    streak  every element of the list (first / selected field), fifo, list left empty         *)
(*    deck    every entry of the share's deck, fifo, deck left empty      never  nothing        *)
(* A record is  <time, values of the logged fields>.  `out[l]` is what log l appended to its    *)
(* file in the last step (header = entry with h = TRUE); with History = TRUE the complete file  *)
(* contents and the history of writes and runs are kept and the statement of the property is    *)
(* checked against that history (folds below), independently of the per-step rules.             *)
EXTENDS Integers, Sequences, FiniteSets, TLC

CONSTANTS RuleSets,   \* configurations: each element is the set of rules (= logs) of the logger
          Sels,       \* field selections: "all" (no field clause) / "one" (field clause)
          Periods,    \* logger periods in ticks (0 = as soon as possible)
          MaxTime,    \* last tick
          MaxEnv,     \* environment actions per half tick
          MaxQ,       \* bound on queued elements (streak list, deck)
          MaxPush,    \* bound on the number of pushes when elements are serial numbers
          Restart,    \* may a stopped logger be started again
          Serial,     \* queued elements are serial numbers 1, 2, ... instead of values
          History     \* keep complete files and the event history (model checking only)

Rules == {"once", "always", "update", "change", "never", "streak", "deck"}
ValueRules == {"once", "always", "update", "change", "never"}
Vals == {0, 1}

VARIABLES cfg,        \* [logs, sel, period] chosen initially, never changed
          now, phase, envn,
          val,        \* val[share][field] for the shares a (fields x, y) and b (field x)
          sq, dq,     \* the list logged by streak, the deck logged by deck
          pushed,     \* number of pushes so far (serial numbers)
          status, desire, retime,    \* the logger as a tasker
          exists,     \* exists[l]: log l's file exists
          logged,     \* logged[l]: once / update / change log has written its first record
          dirty,      \* loggees updated since the update log's previous record
          late,       \* ghost (no action depends on it): subset of dirty whose pending updates all carry
                      \* the time stamp of the update log's previous record (made after it, in the same tick)
          urec,       \* ghost: the update log recorded in this tick
          last,       \* values last logged by the change log
          out,        \* out[l]: entries appended to l's file by the last step
          files, hist, pushS, pushD   \* History only

envVars == <<val, sq, dq, pushed>>
lgVars == <<status, desire, retime>>
logVars == <<exists, logged, dirty, late, urec, last>>
ghost == <<files, hist, pushS, pushD>>
vars == <<cfg, now, phase, envn, envVars, lgVars, logVars, out, ghost>>

Shares == {"a", "b"}
FieldsOf(s) == IF s = "a" THEN {"x", "y"} ELSE {"x"}
\* loggees of the value logs and the fields they log, in file column order
Loggees == IF cfg.sel = "all" THEN {"a", "b"} ELSE {"a"}
LoggedFields == IF cfg.sel = "all" THEN << <<"a", "x">>, <<"a", "y">>, <<"b", "x">> >> ELSE << <<"a", "x">> >>
CurVals == [i \in 1..Len(LoggedFields) |-> val[LoggedFields[i][1]][LoggedFields[i][2]]]
\* a deck entry is a mapping; entry e in Vals has the fields x = e, y = 1 - e.  Blank stands for the EMPTY mapping: it has
\* none of the logged fields, and a logged field that an entry lacks is recorded as an empty column (Blank) - the entry
\* is still an element of the queue and gets its record like any other
Blank == 0 - 1
DeckElems == Vals \cup {Blank}
DeckVals(e) == IF e = Blank THEN (IF cfg.sel = "all" THEN <<Blank, Blank>> ELSE <<Blank>>)
               ELSE IF cfg.sel = "all" THEN <<e, 1 - e>> ELSE <<e>>

Hdr == [h |-> TRUE, t |-> 0, v |-> <<>>]
RecAt(t, vs) == [h |-> FALSE, t |-> t, v |-> vs]
Rec(vs) == RecAt(now, vs)
NoOut == [l \in cfg.logs |-> <<>>]
Has(l) == l \in cfg.logs
H(x, y) == IF History THEN x ELSE y

InitWith(c) ==
        /\ cfg = c
        /\ now = 0 /\ phase = "pre" /\ envn = 0
        /\ val = [s \in Shares |-> [f \in FieldsOf(s) |-> 0]]
        /\ sq = <<>> /\ dq = <<>> /\ pushed = 0
        /\ status = "stopped" /\ desire = "start" /\ retime = 0
        /\ exists = [l \in cfg.logs |-> FALSE] /\ logged = [l \in cfg.logs |-> FALSE]
        /\ dirty = {} /\ late = {} /\ urec = FALSE /\ last = <<>>
        /\ out = [l \in cfg.logs |-> <<>>]
        /\ files = [l \in cfg.logs |-> <<>>] /\ hist = <<>> /\ pushS = <<>> /\ pushD = <<>>
Init == \E c \in [logs : RuleSets, sel : Sels, period : Periods] : InitWith(c)

(* ------------------------------ environment ------------------------------ *)
EnvStep == envn < MaxEnv /\ envn' = envn + 1 /\ out' = NoOut /\ UNCHANGED <<cfg, now, phase>>

\* share.update(f = v): the field is set and the share is stamped, whether or not the value differs
Write(s, f, v) ==
    /\ EnvStep /\ cfg.logs \cap ValueRules # {}
    /\ val' = [val EXCEPT ![s][f] = v]
    /\ IF Has("update") /\ logged["update"] /\ s \in Loggees
         THEN /\ dirty' = dirty \cup {s}
              /\ late' = IF urec THEN (IF s \in dirty THEN late ELSE late \cup {s}) ELSE late \ {s}
         ELSE UNCHANGED <<dirty, late>>
    /\ hist' = H(IF s \in Loggees THEN Append(hist, [k |-> "w", t |-> now, vals |-> <<>>]) ELSE hist, hist)
    /\ UNCHANGED <<sq, dq, pushed, lgVars, exists, logged, urec, last, files, pushS, pushD>>

Elem(v) == IF Serial THEN pushed + 1 ELSE v
CanPush == IF Serial THEN pushed < MaxPush ELSE TRUE
PushS(v) ==
    /\ EnvStep /\ Has("streak") /\ Len(sq) < MaxQ /\ CanPush
    /\ sq' = Append(sq, Elem(v)) /\ pushed' = (IF Serial THEN pushed + 1 ELSE pushed)
    /\ pushS' = H(Append(pushS, Elem(v)), pushS)
    /\ UNCHANGED <<val, dq, lgVars, logVars, files, hist, pushD>>
PushD(v) ==
    /\ EnvStep /\ Has("deck") /\ Len(dq) < MaxQ /\ CanPush
    /\ dq' = Append(dq, Elem(v)) /\ pushed' = (IF Serial THEN pushed + 1 ELSE pushed)
    /\ pushD' = H(Append(pushD, Elem(v)), pushD)
    /\ UNCHANGED <<val, sq, lgVars, logVars, files, hist, pushS>>

\* another tasker asks the logger to stop, or to start again once it is stopped
Bid(c) ==
    /\ EnvStep
    /\ \/ c = "stop" /\ desire # "stop"
       \/ c = "start" /\ Restart /\ status = "stopped" /\ desire = "stop"
    /\ desire' = c
    /\ UNCHANGED <<envVars, status, retime, logVars, ghost>>

Tick == /\ phase = "post" /\ now < MaxTime
        /\ now' = now + 1 /\ phase' = "pre" /\ envn' = 0 /\ urec' = FALSE /\ out' = NoOut
        /\ UNCHANGED <<cfg, envVars, lgVars, exists, logged, dirty, late, last, ghost>>

(* ------------------------------ the logger's turn ------------------------------ *)
Due == retime <= now
\* the control makes the logger log (START of a stopped logger, RUN, STOP of a logger that is not stopped)
LogRun == Due /\ \/ desire = "start" /\ status = "stopped"
                 \/ desire = "run" /\ status # "stopped"
                 \/ desire = "stop" /\ status # "stopped"
\* pending updates that cannot be told from the previous record by their time stamp
OnlyLate == Has("update") /\ logged["update"] /\ dirty # {} /\ dirty \subseteq late

\* records appended by log l in a logger run at `now` (silent: see SlotSilent)
RuleOut(l, silent) ==
    CASE l = "once"   -> IF logged[l] THEN <<>> ELSE <<Rec(CurVals)>>
      [] l = "always" -> <<Rec(CurVals)>>
      [] l = "update" -> IF ~logged[l] \/ (dirty # {} /\ ~silent) THEN <<Rec(CurVals)>> ELSE <<>>
      [] l = "change" -> IF ~logged[l] \/ CurVals # last THEN <<Rec(CurVals)>> ELSE <<>>
      [] l = "never"  -> <<>>
      [] l = "streak" -> [i \in 1..Len(sq) |-> Rec(<<sq[i]>>)]
      [] l = "deck"   -> [i \in 1..Len(dq) |-> Rec(DeckVals(dq[i]))]

DoLog(opening, silent) ==
    LET ro == [l \in cfg.logs |-> RuleOut(l, silent)]
        hd == [l \in cfg.logs |-> IF opening /\ ~exists[l] THEN <<Hdr>> ELSE <<>>] IN
    /\ out' = [l \in cfg.logs |-> hd[l] \o ro[l]]
    /\ exists' = IF opening THEN [l \in cfg.logs |-> TRUE] ELSE exists
    /\ logged' = [l \in cfg.logs |-> logged[l] \/ (l \in {"once", "update", "change"} /\ ro[l] # <<>>)]
    /\ IF Has("update") /\ ro["update"] # <<>>
         THEN dirty' = {} /\ late' = {} /\ urec' = TRUE
         ELSE UNCHANGED <<dirty, late, urec>>
    /\ last' = IF Has("change") /\ ro["change"] # <<>> THEN CurVals ELSE last
    /\ sq' = IF Has("streak") THEN <<>> ELSE sq
    /\ dq' = IF Has("deck") THEN <<>> ELSE dq
    /\ files' = H([l \in cfg.logs |-> files[l] \o hd[l] \o ro[l]], files)
    /\ hist' = H(Append(hist, [k |-> "r", t |-> now, vals |-> CurVals]), hist)
    /\ UNCHANGED <<val, pushed, pushS, pushD>>

SlotWith(silent) ==
    /\ phase = "pre" /\ phase' = "post" /\ envn' = 0 /\ UNCHANGED <<cfg, now>>
    /\ IF ~Due
         THEN out' = NoOut /\ UNCHANGED <<envVars, lgVars, logVars, ghost>>
         ELSE /\ retime' = retime + cfg.period
              /\ IF LogRun
                   THEN /\ DoLog(desire = "start", silent)
                        /\ status' = CASE desire = "start" -> "started" [] desire = "run" -> "running" [] OTHER -> "stopped"
                        /\ desire' = IF desire = "start" THEN "run" ELSE desire
                   ELSE \* STOP sent to a stopped logger: nothing happens
                        out' = NoOut /\ UNCHANGED <<envVars, status, desire, logVars, ghost>>

Slot == phase = "pre" /\ SlotWith(FALSE)
\* NOT part of the specification: the deviation recorded as an open finding (the update log stays silent when
\* the pending updates carry the time stamp of its previous record).  Used by the trace specification only to
\* keep following a recorded execution after reporting that deviation.
SlotSilent == LogRun /\ OnlyLate /\ SlotWith(TRUE)

Next == \/ \E s \in Shares : \E f \in FieldsOf(s) : \E v \in Vals : Write(s, f, v)
        \/ \E v \in (IF Serial THEN {0} ELSE Vals) : PushS(v)
        \/ \E v \in (IF Serial THEN {0} ELSE DeckElems) : PushD(v)
        \/ \E c \in {"stop", "start"} : Bid(c)
        \/ Slot
        \/ Tick
Spec == Init /\ [][Next]_vars

(* ------------------------------ properties ------------------------------ *)
TypeOK == /\ status \in {"stopped", "started", "running"} /\ desire \in {"start", "run", "stop"}
          /\ (desire = "run" => status # "stopped") /\ (desire = "start" => status = "stopped")
          /\ late \subseteq dirty /\ dirty \subseteq Loggees

\* a logger run leaves the queues empty, and only a logger run removes anything from them
Turn == phase = "pre" /\ phase' = "post"
QueuesEmptied == [][/\ (LogRun /\ Turn /\ Has("streak") => sq' = <<>>)
                    /\ (LogRun /\ Turn /\ Has("deck") => dq' = <<>>)
                    /\ (~(LogRun /\ Turn) => Len(sq') >= Len(sq) /\ Len(dq') >= Len(dq))]_vars
\* nothing is written to any file except in the logger's turn
OnlyLoggerWrites == [][(phase' = phase) => out' = NoOut]_vars

\* ---- the statement, as folds over the history (History = TRUE) ----
Recs(l) == SelectSeq(files[l], LAMBDA e : ~e.h)
Runs == SelectSeq(hist, LAMBDA e : e.k = "r")
RunRec(r) == RecAt(r.t, r.vals)

OnceOne == History /\ Has("once") => Recs("once") = (IF Runs = <<>> THEN <<>> ELSE <<RunRec(Runs[1])>>)
AlwaysPerRun == History /\ Has("always") => Recs("always") = [i \in 1..Len(Runs) |-> RunRec(Runs[i])]
NeverNothing == History /\ Has("never") => Recs("never") = <<>>

\* update: a record at the first run, then one at every run before which a loggee was updated after the previous record
RECURSIVE UpdFold(_, _, _, _)
UpdFold(i, first, pending, acc) ==
    IF i > Len(hist) THEN acc
    ELSE IF hist[i].k = "w" THEN UpdFold(i + 1, first, TRUE, acc)
    ELSE IF first \/ pending THEN UpdFold(i + 1, FALSE, FALSE, Append(acc, RunRec(hist[i])))
    ELSE UpdFold(i + 1, first, pending, acc)
UpdateFirstThenEveryUpdate == History /\ Has("update") => Recs("update") = UpdFold(1, TRUE, FALSE, <<>>)

\* change: a record at the first run, then one at every run at which the logged values differ from the last logged ones
RECURSIVE ChgFold(_, _)
ChgFold(i, acc) ==
    IF i > Len(Runs) THEN acc
    ELSE IF acc = <<>> \/ acc[Len(acc)].v # Runs[i].vals THEN ChgFold(i + 1, Append(acc, RunRec(Runs[i])))
    ELSE ChgFold(i + 1, acc)
ChangeFirstThenOnDiff == History /\ Has("change") => Recs("change") = ChgFold(1, <<>>)

\* streak / deck: everything ever queued is either logged (exactly once, in the order queued) or still queued
Vs(rs, f(_)) == [i \in 1..Len(rs) |-> f(rs[i])]
StreakFifoOnce == History /\ Has("streak") => Vs(Recs("streak"), LAMBDA e : e.v[1]) \o sq = pushS
DeckFifoOnce == History /\ Has("deck") =>
    /\ Vs(Recs("deck"), LAMBDA e : e.v[1]) \o dq = pushD
    /\ \A i \in 1..Len(Recs("deck")) : Recs("deck")[i].v = DeckVals(Recs("deck")[i].v[1])
\* records carry the time of a logger run, in order
TimesAreRunTimes == History => \A l \in cfg.logs : \A i \in 1..Len(Recs(l)) :
    /\ \E j \in 1..Len(Runs) : Runs[j].t = Recs(l)[i].t
    /\ (i > 1 => Recs(l)[i - 1].t <= Recs(l)[i].t)
\* every file that exists starts with its one header
OneHeaderPerFile == History => \A l \in cfg.logs :
    /\ exists[l] <=> files[l] # <<>>
    /\ files[l] # <<>> => files[l][1].h /\ \A i \in 2..Len(files[l]) : ~files[l][i].h
=============================================================================
