------------------------------ MODULE PktLayer ------------------------------
(* Message <-> packet layering of the proto stacks (extra X-packeting):                         *)
(*   application  --message()-->  .txMsgs --packetize--> .txPkts --handler--> wire              *)
(*   wire --handler--> parserize --> .rxPkts --messagize--> remote.receive --> .rxMsgs --> app  *)
(* for a stack that keeps remote devices (UdpStack, TcpServerStack; TcpClientStack with its one *)
(* remote).                                                                                     *)
(*                                                                                              *)
(* Written from the docstrings of ioflo/aio/proto/stacking.py and devicing.py:                  *)
(*   message(msg, remote)  "Append (msg, remote) duple to .txMsgs deque.  If destination remote  *)
(*                          not given Then use zeroth remote If any otherwise Raise exception"   *)
(*   transmit(pkt, ha)     "Pack and Append (pkt, ha) duple to .txPkts deque.  If destination    *)
(*                          remote.ha not given Then use zeroth remote.ha If any otherwise Raise *)
(*                          exception" (UdpStack)                                                *)
(*   _serviceOneTxMsg      "Handle one (message, remote) duple from .txMsgs deque ... Appends    *)
(*                          (packet, ha) duple to txPkts deque"                                  *)
(*   packetize             "Returns packed packet created from msg destined for remote"         *)
(*   serviceTxMsgs / serviceTxMsgOnce   "Service .txMsgs deque of outgoing messages" / "once     *)
(*                          (one msg)"                                                           *)
(*   serviceTxPkts / serviceTxPktsOnce  "Service the .txPkts deque to send packets through       *)
(*                          server" / "once (one pkt)"                                           *)
(*   serviceAllTx          "Service: txMsgs queue, txes queue to server send"                    *)
(*   serviceAllTxOnce      "Service the transmit side of the stack once (one transmission)"      *)
(*   serviceReceives / serviceReceivesOnce  "Retrieve from server all received and queue up" /   *)
(*                          "Service receives once (one reception) and queue up"                 *)
(*   parserize             "Returns packet parsed from raw data sourced from ha"; a packet part  *)
(*                          raises ValueError "Not enough raw data" (packeting.py), the stacks   *)
(*                          catch it, count it and deliver nothing                               *)
(*   messagize             "Returns duple of (message, remote) converted from rx source packet   *)
(*                          pkt and ha"; "Dropping packet received from unknown remote ha"       *)
(*   serviceRxPkts / Once  "Process all duples in .rxPkts deque" / "once (one pkt)"              *)
(*   RemoteDevice.receive  "Process received rx msg/pkt/data."                                   *)
(*   .rxMsgs               "deque of duples to hold received msgs and source remotes"            *)
(*   serviceRxMsgs / Once  "Service .rxMsgs deque of duples" / "once (one msg)"                  *)
(*   serviceAllRx / Once   "Service receive side of stack" / "once (one reception)"              *)
(*   serviceAll            "Service all Rx and Tx"                                               *)
(*   .remotes              "odict of remotes indexed by uid" (iteration order = order of adding) *)
(*   incStat               "Increment stat key counter by delta"; the counters are named after   *)
(*                          the event they count: pkt_received, msg_received, pkt_parse_error,   *)
(*                          pkt_pack_error (read here as: exactly one increment per such event)  *)
(*                                                                                              *)
(* Submissions (calls of message / transmit) are numbered 1, 2, ... in call order (sub), raw     *)
(* receptions offered by the environment likewise (dlv); the queues hold those numbers, so       *)
(* "exactly once, in order, to / from the right remote" are plain statements about sequences.    *)
(* The address of remote r is r; Strangers are source addresses that belong to no remote.        *)
(* The binding turns numbers into distinct packet payloads and compares payloads, destination    *)
(* and source addresses and the attributed remote objects.                                       *)
(*                                                                                              *)
(* Environment: Deliver (a raw reception from some source arrives: well formed, or truncated so  *)
(* that a packet part finds "not enough raw data"), AddRemote / RemoveRemote (the application     *)
(* changes the set of remotes).  The socket accepts every packet offered (transient send         *)
(* failures are the subject of Gram.tla / C35, partial stream sends of StreamStack.tla / C36).   *)
(*                                                                                              *)
(* Not decided by the documentation, hence not decided here:                                     *)
(*   - what a refused message()/transmit() (no remote given, none known) does besides queueing   *)
(*     nothing: the docstring says "Raise exception", the code counts a statistic; either is     *)
(*     admitted (the binding accepts an exception or a plain return, no counter is compared);     *)
(*   - messages still queued for a remote that is then removed (RemoveRemote is not offered      *)
(*     while .txMsgs holds a message for that remote);                                           *)
(*   - with Ordered = FALSE (stream server: one byte stream per connection) the order in which    *)
(*     packets of *different* sources reach .rxPkts during one service call.                      *)
EXTENDS Integers, Sequences, FiniteSets, TLC

CONSTANTS NRemotes,    \* remote devices are 1..NRemotes; the address of remote r is r
          Strangers,   \* source addresses (integers > NRemotes) that no remote has
          NInit,       \* the stack starts with the remotes 1..NInit, added in that order
          Dynamic,     \* TRUE: AddRemote is offered
          Removal,     \* TRUE: RemoveRemote is offered
          IdleSvc,     \* TRUE: service calls are also offered when they have nothing to do (they change nothing)
          DefaultTx,   \* TRUE: transmit without destination is offered (UdpStack documents it)
          BadTx,       \* TRUE: messages / packets that cannot be packed are offered
          BadRx,       \* TRUE: truncated receptions are offered
          Ordered,     \* TRUE: one reception queue for all sources (datagram socket)
          MaxTx,       \* calls of message / transmit during a behaviour
          MaxRx        \* receptions offered by the environment during a behaviour

Rem == 1..NRemotes
InitKnown == [i \in 1..NInit |-> i]
Srcs == Rem \cup Strangers
ASSUME Strangers \cap Rem = {}

VARIABLES known,    \* remotes of the stack in iteration order of .remotes
          sub,      \* history: sub[n] = [lane |-> "msg" | "pkt", to |-> remote or 0 (refused), ok |-> it can be packed]
          txMsgs,   \* .txMsgs: submission numbers
          txPkts,   \* .txPkts: submission numbers (the packet made from that submission)
          wire,     \* history: packets the handler accepted, in order
          dlv,      \* history: dlv[n] = [kind |-> "good" | "trunc", src |-> source address]
          inbox,    \* receptions waiting in the handler (numbers into dlv), arrival order
          rxPkts,   \* .rxPkts: reception numbers (the packet parsed from that reception)
          rxMsgs,   \* .rxMsgs: [n |-> reception number, r |-> remote it is attributed to]
          got,      \* history: everything ever appended to .rxMsgs, in order
          stats     \* [received, parseErr, packErr, msgRecv] = pkt_received, pkt_parse_error, pkt_pack_error, msg_received
vars == <<known, sub, txMsgs, txPkts, wire, dlv, inbox, rxPkts, rxMsgs, got, stats>>
txvars == <<sub, txMsgs, txPkts, wire>>
rxvars == <<dlv, inbox, rxPkts, rxMsgs, got>>

Range(s) == {s[i] : i \in 1..Len(s)}
Without(s, x) == SelectSeq(s, LAMBDA e : e # x)
Bump(f, k) == [stats EXCEPT ![f] = @ + k]

Init == /\ known = InitKnown
        /\ sub = <<>> /\ txMsgs = <<>> /\ txPkts = <<>> /\ wire = <<>>
        /\ dlv = <<>> /\ inbox = <<>> /\ rxPkts = <<>> /\ rxMsgs = <<>> /\ got = <<>>
        /\ stats = [received |-> 0, parseErr |-> 0, packErr |-> 0, msgRecv |-> 0]

(* ------------------------------ the application changes the remotes ------------------------------ *)
AddRemote(r) == /\ Dynamic /\ r \notin Range(known)
                /\ known' = Append(known, r)
                /\ UNCHANGED <<txvars, rxvars, stats>>
RemoveRemote(r) == /\ Removal /\ r \in Range(known)
                   /\ \A i \in 1..Len(txMsgs) : sub[txMsgs[i]].to # r
                   /\ known' = Without(known, r)
                   /\ UNCHANGED <<txvars, rxvars, stats>>

(* ------------------------------ transmit side ------------------------------ *)
\* message(msg, remote): queued whatever the message holds (it is packed when .txMsgs is serviced)
Message(r, ok) ==
    /\ Len(sub) < MaxTx /\ r \in Range(known) /\ (ok \/ BadTx)
    /\ sub' = Append(sub, [lane |-> "msg", to |-> r, ok |-> ok])
    /\ txMsgs' = Append(txMsgs, Len(sub) + 1)
    /\ UNCHANGED <<known, txPkts, wire, rxvars, stats>>
\* message(msg): the zeroth remote if any, otherwise refused (nothing queued)
MessageDefault(ok) ==
    /\ Len(sub) < MaxTx /\ (ok \/ BadTx)
    /\ IF known = <<>>
       THEN /\ sub' = Append(sub, [lane |-> "msg", to |-> 0, ok |-> ok])
            /\ UNCHANGED txMsgs
       ELSE /\ sub' = Append(sub, [lane |-> "msg", to |-> known[1], ok |-> ok])
            /\ txMsgs' = Append(txMsgs, Len(sub) + 1)
    /\ UNCHANGED <<known, txPkts, wire, rxvars, stats>>
\* transmit(pkt, ha): packed at once; a packet that cannot be packed is counted and not queued
TransmitTo(r, ok) ==
    /\ sub' = Append(sub, [lane |-> "pkt", to |-> r, ok |-> ok])
    /\ IF ok THEN txPkts' = Append(txPkts, Len(sub) + 1) /\ UNCHANGED stats
             ELSE UNCHANGED txPkts /\ stats' = Bump("packErr", 1)
    /\ UNCHANGED <<known, txMsgs, wire, rxvars>>
Transmit(r, ok) == Len(sub) < MaxTx /\ r \in Rem /\ (ok \/ BadTx) /\ TransmitTo(r, ok)
TransmitDefault(ok) ==
    /\ DefaultTx /\ Len(sub) < MaxTx /\ (ok \/ BadTx)
    /\ IF known = <<>>
       THEN /\ sub' = Append(sub, [lane |-> "pkt", to |-> 0, ok |-> ok])
            /\ UNCHANGED <<known, txMsgs, txPkts, wire, rxvars, stats>>
       ELSE TransmitTo(known[1], ok)

Packable(q) == SelectSeq(q, LAMBDA n : sub[n].ok)
\* what servicing the first k messages of .txMsgs does: each becomes one packet for its remote, in order, unless it
\* cannot be packed (counted, dropped)
TxMsgs(k, q, p, st) == [msgs |-> SubSeq(q, k + 1, Len(q)),
                        pkts |-> p \o Packable(SubSeq(q, 1, k)),
                        st |-> [st EXCEPT !.packErr = @ + (k - Len(Packable(SubSeq(q, 1, k))))]]
\* what servicing the first k packets of .txPkts does: the handler takes them in order
TxPkts(k, p, w) == [pkts |-> SubSeq(p, k + 1, Len(p)), wire |-> w \o SubSeq(p, 1, k)]
Min(a, b) == IF a < b THEN a ELSE b

SvcTxMsgOnce == (IdleSvc \/ txMsgs # <<>>) /\
  LET a == TxMsgs(Min(1, Len(txMsgs)), txMsgs, txPkts, stats) IN
    /\ txMsgs' = a.msgs /\ txPkts' = a.pkts /\ stats' = a.st
    /\ UNCHANGED <<known, sub, wire, rxvars>>
SvcTxMsgs == (IdleSvc \/ txMsgs # <<>>) /\
  LET a == TxMsgs(Len(txMsgs), txMsgs, txPkts, stats) IN
    /\ txMsgs' = a.msgs /\ txPkts' = a.pkts /\ stats' = a.st
    /\ UNCHANGED <<known, sub, wire, rxvars>>
SvcTxPktsOnce == (IdleSvc \/ txPkts # <<>>) /\
  LET b == TxPkts(Min(1, Len(txPkts)), txPkts, wire) IN
    /\ txPkts' = b.pkts /\ wire' = b.wire
    /\ UNCHANGED <<known, sub, txMsgs, rxvars, stats>>
SvcTxPkts == (IdleSvc \/ txPkts # <<>>) /\
  LET b == TxPkts(Len(txPkts), txPkts, wire) IN
    /\ txPkts' = b.pkts /\ wire' = b.wire
    /\ UNCHANGED <<known, sub, txMsgs, rxvars, stats>>
\* serviceAllTx = serviceTxMsgs then serviceTxPkts; serviceAllTxOnce = one message, then one packet
AllTx(once, q, p, w, st) ==
    LET a == TxMsgs(IF once THEN Min(1, Len(q)) ELSE Len(q), q, p, st)
        b == TxPkts(IF once THEN Min(1, Len(a.pkts)) ELSE Len(a.pkts), a.pkts, w) IN
    [msgs |-> a.msgs, pkts |-> b.pkts, wire |-> b.wire, st |-> a.st]
SvcAllTx == (IdleSvc \/ txMsgs # <<>> \/ txPkts # <<>>) /\
  LET t == AllTx(FALSE, txMsgs, txPkts, wire, stats) IN
    /\ txMsgs' = t.msgs /\ txPkts' = t.pkts /\ wire' = t.wire /\ stats' = t.st
    /\ UNCHANGED <<known, sub, rxvars>>
SvcAllTxOnce == (IdleSvc \/ txMsgs # <<>> \/ txPkts # <<>>) /\
  LET t == AllTx(TRUE, txMsgs, txPkts, wire, stats) IN
    /\ txMsgs' = t.msgs /\ txPkts' = t.pkts /\ wire' = t.wire /\ stats' = t.st
    /\ UNCHANGED <<known, sub, rxvars>>

(* ------------------------------ receive side ------------------------------ *)
\* environment: a raw reception from source a arrives at the handler
Deliver(k, a) ==
    /\ Len(dlv) < MaxRx /\ a \in Srcs /\ (k = "good" \/ (k = "trunc" /\ BadRx))
    /\ dlv' = Append(dlv, [kind |-> k, src |-> a])
    /\ inbox' = Append(inbox, Len(dlv) + 1)
    /\ UNCHANGED <<known, txvars, rxPkts, rxMsgs, got, stats>>

Good(q) == SelectSeq(q, LAMBDA n : dlv[n].kind = "good")
\* the elements of q at the positions in S, in order
RECURSIVE Pick(_, _, _)
Pick(q, S, i) == IF i > Len(q) THEN <<>> ELSE (IF i \in S THEN <<q[i]>> ELSE <<>>) \o Pick(q, S, i + 1)
FromSrc(q, a) == SelectSeq(q, LAMBDA n : dlv[n].src = a)
\* s holds exactly the elements of t, those of the same source in the same order (s = t when Ordered)
SameBySource(s, t) == /\ Len(s) = Len(t) /\ Range(s) = Range(t)
                      /\ \A a \in Srcs : FromSrc(s, a) = FromSrc(t, a)
Arrangements(t) == IF Ordered \/ Len(t) <= 1 THEN {t}
                   ELSE {s \in [1..Len(t) -> Range(t)] : SameBySource(s, t)}

\* what taking the receptions at positions S of the inbox does: every well formed one becomes one received packet
\* carrying its source, a truncated one is counted and dropped
Receive(S, arranged, ib, p, st) ==
    [inbox |-> Pick(ib, (1..Len(ib)) \ S, 1),
     pkts |-> p \o arranged,
     st |-> [st EXCEPT !.parseErr = @ + (Cardinality(S) - Len(Good(Pick(ib, S, 1))))]]
\* one reception: the head of the inbox (datagrams), the head of every source's stream (stream server: "one reception"
\* is taken per connection)
OnceSet(ib) == IF Ordered THEN (IF ib = <<>> THEN {} ELSE {1})
               ELSE {i \in 1..Len(ib) : \A j \in 1..(i - 1) : dlv[ib[j]].src # dlv[ib[i]].src}

\* what servicing the first k received packets does: each is counted; one from a known remote becomes one message
\* attributed to that remote, in order; one from an unknown source is dropped
Attributed(q) == LET kn == SelectSeq(q, LAMBDA n : dlv[n].src \in Range(known)) IN
                 [i \in 1..Len(kn) |-> [n |-> kn[i], r |-> dlv[kn[i]].src]]
RxPkts(k, p, m, g, st) ==
    [pkts |-> SubSeq(p, k + 1, Len(p)),
     msgs |-> m \o Attributed(SubSeq(p, 1, k)),
     got |-> g \o Attributed(SubSeq(p, 1, k)),
     st |-> [st EXCEPT !.received = @ + k]]
\* what servicing the first k received messages does
RxMsgs(k, m, st) == [msgs |-> SubSeq(m, k + 1, Len(m)), st |-> [st EXCEPT !.msgRecv = @ + k]]

SvcReceivesOnce == (IdleSvc \/ inbox # <<>>) /\
  \E arr \in Arrangements(Good(Pick(inbox, OnceSet(inbox), 1))) :
    LET a == Receive(OnceSet(inbox), arr, inbox, rxPkts, stats) IN
    /\ inbox' = a.inbox /\ rxPkts' = a.pkts /\ stats' = a.st
    /\ UNCHANGED <<known, txvars, dlv, rxMsgs, got>>
SvcReceives == (IdleSvc \/ inbox # <<>>) /\
  \E arr \in Arrangements(Good(inbox)) :
    LET a == Receive(1..Len(inbox), arr, inbox, rxPkts, stats) IN
    /\ inbox' = a.inbox /\ rxPkts' = a.pkts /\ stats' = a.st
    /\ UNCHANGED <<known, txvars, dlv, rxMsgs, got>>
SvcRxPktsOnce == (IdleSvc \/ rxPkts # <<>>) /\
  LET b == RxPkts(Min(1, Len(rxPkts)), rxPkts, rxMsgs, got, stats) IN
    /\ rxPkts' = b.pkts /\ rxMsgs' = b.msgs /\ got' = b.got /\ stats' = b.st
    /\ UNCHANGED <<known, txvars, dlv, inbox>>
SvcRxPkts == (IdleSvc \/ rxPkts # <<>>) /\
  LET b == RxPkts(Len(rxPkts), rxPkts, rxMsgs, got, stats) IN
    /\ rxPkts' = b.pkts /\ rxMsgs' = b.msgs /\ got' = b.got /\ stats' = b.st
    /\ UNCHANGED <<known, txvars, dlv, inbox>>
SvcRxMsgsOnce == (IdleSvc \/ rxMsgs # <<>>) /\
  LET c == RxMsgs(Min(1, Len(rxMsgs)), rxMsgs, stats) IN
    /\ rxMsgs' = c.msgs /\ stats' = c.st
    /\ UNCHANGED <<known, txvars, dlv, inbox, rxPkts, got>>
SvcRxMsgs == (IdleSvc \/ rxMsgs # <<>>) /\
  LET c == RxMsgs(Len(rxMsgs), rxMsgs, stats) IN
    /\ rxMsgs' = c.msgs /\ stats' = c.st
    /\ UNCHANGED <<known, txvars, dlv, inbox, rxPkts, got>>
\* serviceAllRx = serviceReceives, serviceRxPkts, serviceRxMsgs (and the timers, which this model does not have);
\* serviceAllRxOnce = one reception, one packet, one message
AllRx(once, arr, S, ib, p, m, g, st) ==
    LET a == Receive(S, arr, ib, p, st)
        b == RxPkts(IF once THEN Min(1, Len(a.pkts)) ELSE Len(a.pkts), a.pkts, m, g, a.st)
        c == RxMsgs(IF once THEN Min(1, Len(b.msgs)) ELSE Len(b.msgs), b.msgs, b.st) IN
    [inbox |-> a.inbox, pkts |-> b.pkts, msgs |-> c.msgs, got |-> b.got, st |-> c.st]
SvcAllRx == (IdleSvc \/ inbox # <<>> \/ rxPkts # <<>> \/ rxMsgs # <<>>) /\
  \E arr \in Arrangements(Good(inbox)) :
    LET x == AllRx(FALSE, arr, 1..Len(inbox), inbox, rxPkts, rxMsgs, got, stats) IN
    /\ inbox' = x.inbox /\ rxPkts' = x.pkts /\ rxMsgs' = x.msgs /\ got' = x.got /\ stats' = x.st
    /\ UNCHANGED <<known, txvars, dlv>>
SvcAllRxOnce == (IdleSvc \/ inbox # <<>> \/ rxPkts # <<>> \/ rxMsgs # <<>>) /\
  \E arr \in Arrangements(Good(Pick(inbox, OnceSet(inbox), 1))) :
    LET x == AllRx(TRUE, arr, OnceSet(inbox), inbox, rxPkts, rxMsgs, got, stats) IN
    /\ inbox' = x.inbox /\ rxPkts' = x.pkts /\ rxMsgs' = x.msgs /\ got' = x.got /\ stats' = x.st
    /\ UNCHANGED <<known, txvars, dlv>>
\* serviceAll = serviceAllRx then serviceAllTx
SvcAll == (IdleSvc \/ inbox # <<>> \/ rxPkts # <<>> \/ rxMsgs # <<>> \/ txMsgs # <<>> \/ txPkts # <<>>) /\
  \E arr \in Arrangements(Good(inbox)) :
    LET x == AllRx(FALSE, arr, 1..Len(inbox), inbox, rxPkts, rxMsgs, got, stats)
        t == AllTx(FALSE, txMsgs, txPkts, wire, x.st) IN
    /\ inbox' = x.inbox /\ rxPkts' = x.pkts /\ rxMsgs' = x.msgs /\ got' = x.got
    /\ txMsgs' = t.msgs /\ txPkts' = t.pkts /\ wire' = t.wire /\ stats' = t.st
    /\ UNCHANGED <<known, sub, dlv>>

Next == \/ \E r \in Rem : AddRemote(r) \/ RemoveRemote(r)
        \/ \E r \in Rem, ok \in BOOLEAN : Message(r, ok) \/ Transmit(r, ok)
        \/ \E ok \in BOOLEAN : MessageDefault(ok) \/ TransmitDefault(ok)
        \/ SvcTxMsgOnce \/ SvcTxMsgs \/ SvcTxPktsOnce \/ SvcTxPkts \/ SvcAllTx \/ SvcAllTxOnce
        \/ \E k \in {"good", "trunc"}, a \in Srcs : Deliver(k, a)
        \/ SvcReceivesOnce \/ SvcReceives \/ SvcRxPktsOnce \/ SvcRxPkts \/ SvcRxMsgsOnce \/ SvcRxMsgs
        \/ SvcAllRx \/ SvcAllRxOnce \/ SvcAll
Spec == Init /\ [][Next]_vars

(* ------------------------------ properties ------------------------------ *)
Distinct(s) == \A i, j \in 1..Len(s) : i # j => s[i] # s[j]
Ascending(s) == \A i, j \in 1..Len(s) : i < j => s[i] < s[j]
Lane(s, l) == SelectSeq(s, LAMBDA n : sub[n].lane = l)
Count(S) == Cardinality(S)
GotNums == [i \in 1..Len(got) |-> got[i].n]

\* every accepted submission that can be packed is in exactly one place: still a message, a queued packet, or on the
\* wire -- never twice, never lost; what was refused or cannot be packed never becomes a packet
TxExactlyOnce ==
    /\ Distinct(txMsgs \o txPkts \o wire)
    /\ \A n \in 1..Len(sub) :
         LET there == n \in Range(txMsgs) \cup Range(txPkts) \cup Range(wire) IN
         /\ (sub[n].to # 0 /\ sub[n].ok) => there
         /\ (sub[n].to = 0) => ~there
         /\ (~sub[n].ok) => n \notin Range(txPkts) \cup Range(wire)
         /\ (sub[n].lane = "pkt") => n \notin Range(txMsgs)
\* messages become packets in the order they were queued (wire first, then queued packets, then waiting messages), and
\* so do the packets handed to transmit
TxInOrder == /\ Ascending(Lane(wire \o txPkts, "msg") \o Packable(txMsgs)) /\ Ascending(txMsgs)
             /\ Ascending(Lane(wire \o txPkts, "pkt"))
\* every reception is in exactly one place (handler, received packets) or was processed; nothing is invented
RxExactlyOnce ==
    /\ Distinct(inbox \o rxPkts) /\ Distinct(GotNums)
    /\ Range(inbox) \cup Range(rxPkts) \cup Range(GotNums) \subseteq 1..Len(dlv)
    /\ Range(GotNums) \cap (Range(inbox) \cup Range(rxPkts)) = {}
    /\ \A n \in Range(rxPkts) \cup Range(GotNums) : dlv[n].kind = "good"
\* a message is attributed to the remote whose address the packet came from
RightRemote == \A i \in 1..Len(got) : got[i].r = dlv[got[i].n].src /\ got[i].r \in Rem
\* receptions of one source are processed in arrival order (all of them when there is one reception queue)
RxInOrder == /\ \A a \in Srcs : Ascending(FromSrc(GotNums, a) \o FromSrc(rxPkts, a) \o FromSrc(Good(inbox), a))
             /\ Ordered => Ascending(GotNums \o rxPkts \o inbox)
             /\ \E k \in 0..Len(got) : rxMsgs = SubSeq(got, k + 1, Len(got))
\* the counters count: packets taken from .rxPkts, truncated receptions, submissions that could not be packed, messages
\* taken from .rxMsgs
Processed == (1..Len(dlv)) \ (Range(inbox) \cup Range(rxPkts))
Counters ==
    /\ stats.received = Count({n \in Processed : dlv[n].kind = "good"})
    /\ stats.parseErr = Count({n \in Processed : dlv[n].kind = "trunc"})
    /\ stats.packErr = Count({n \in 1..Len(sub) : ~sub[n].ok /\ sub[n].to # 0 /\ n \notin Range(txMsgs)})
    /\ stats.msgRecv = Len(got) - Len(rxMsgs)
\* a truncated reception changes nothing but its counter: the step that consumes receptions leaves every queue as the
\* same step without the truncated ones would
MalformedIsolated ==
    [][(inbox' # inbox /\ Len(dlv') = Len(dlv)) =>
          LET gone == {n \in Range(inbox) \ Range(inbox') : dlv[n].kind = "trunc"} IN
          /\ stats'.parseErr = stats.parseErr + Count(gone)
          /\ gone \cap (Range(rxPkts') \cup Range([i \in 1..Len(got') |-> got'[i].n])) = {}]_vars
\* a packet from an unknown source is counted as received and has no other effect
UnknownDropped ==
    [][\A n \in Range(rxPkts) \ Range(rxPkts') :
          (dlv[n].src \notin Range(known)) => n \notin Range([i \in 1..Len(got') |-> got'[i].n])]_vars
=============================================================================
