---------------------------- MODULE ExchangeTrace ----------------------------
(* Binding B for Exchange.tla: a recorded history of one real exchange under a scripted stamper. *)
(* Header {"ev": "Init", "tset": setting, "rset": setting, "timeout": q, "redo": q} (the last two  *)
(* are the attributes the constructed exchange shows); then                                      *)
(*   {"ev": "Advance", "dt": q} | {"ev": "Start", "m": message, obs} | {"ev": "Process", obs} |    *)
(*   {"ev": "Send", "m": message, obs} | {"ev": "Transmit", "m": message, obs} |                   *)
(*   {"ev": "Finish", obs}   with obs = "done", "failed", "sent", "last", "res" as observed.       *)
EXTENDS Exchange, TraceBatch

VARIABLES tid, l
tvars == <<vars, tid, l>>
Ev == EvAt(tid, l)

TraceInit == /\ tid \in 1..NTraces
             /\ l = 2
             /\ LET h == EvAt(tid, 1) IN
                /\ tset = h.tset /\ rset = h.rset
                /\ timeout = Resolve(h.tset, DefTimeout) /\ redo = Resolve(h.rset, DefRedo)
                \* the constructed exchange must show exactly these attributes
                /\ h.timeout = timeout /\ h.redo = redo
             /\ now = 0 /\ tstart = 0 /\ rstart = 0 /\ lastAt = 0
             /\ started = FALSE /\ done = FALSE /\ failed = FALSE
             /\ tx = 0 /\ sent = 0 /\ last = 0 /\ starts = 0 /\ res = "new"

Logged == /\ tx' = Ev.tx /\ done' = Ev.done /\ failed' = Ev.failed /\ sent' = Ev.sent /\ last' = Ev.last /\ res' = Ev.res

Consume(name) == l <= TraceLen(tid) /\ Ev.ev = name /\ l' = l + 1 /\ UNCHANGED tid

TraceNext ==
    \/ Consume("Advance") /\ Advance(Ev.dt)
    \/ Consume("Start") /\ Start(Ev.m) /\ Logged
    \/ Consume("Send") /\ Send(Ev.m) /\ Logged
    \/ Consume("Transmit") /\ Transmit(Ev.m) /\ Logged
    \/ Consume("Process") /\ Process /\ Logged
    \/ Consume("Finish") /\ Finish /\ Logged

TraceSpec == TraceInit /\ [][TraceNext]_tvars
TraceOK == TraceConstraint(tid, l)
=============================================================================
