------------------------------ MODULE Exchange ------------------------------
(* Exchanges of ioflo.aio.proto.exchanging (property C38): an initiated exchange (Exchanger)   *)
(* with an overall timeout and a redo (retransmission) interval, polled by Process.            *)
(*                                                                                             *)
(* Written from the class docstrings and the statement of C38:                                 *)
(*   "timeout is exchange expiration timeout; timeout of 0.0 means no expiration go on forever" *)
(*   "redoTimeout is redo appropriate packet/message in exchange"                              *)
(*   ".Timeout is overall exchange timeout, .RedoTimeout is redo timeout" (class defaults used  *)
(*    when the parameter is not given), ".timer is StoreTimer instance for .timeout,           *)
(*    .redoTimer is StoreTimer instance for .redoTimeout" (store timers expire when the stamp  *)
(*    reaches start + duration; restarting begins a new interval at the current stamp),        *)
(*   ".tx is latest/next transmitted msg/pkt/data", ".done", ".failed",                        *)
(*   Exchanger.start "Initiate exchange" (flags reset, both timers restarted, tx sent),        *)
(*   process "Process time based handling of exchange like timeout or retries",                *)
(*   finish "Exchange complete", fail "Exchange complete as failure".                          *)
(* Time is counted in integer quanta (the harness uses a quantum of 0.5 s, exact in floats);   *)
(* the stack's stamper is the clock and advances only through the environment action Advance.  *)
(*                                                                                             *)
(* send(m) "Setup and transmit packet" and transmit(m) "Queue pkt on stack packet queue" hand   *)
(* a further message of the running exchange to the stack; by the class docstring .tx is the    *)
(* "latest/next transmitted msg/pkt/data" and by C38 the redo retransmits the latest message,   *)
(* so either way m becomes the latest message and later retransmissions carry m.                *)
(* Not decided by the documentation, hence not decided here:                                   *)
(*   - whether a further send / transmit begins a new redo interval: Send and Transmit are      *)
(*     offered only at the stamp at which the current redo interval began, where both readings  *)
(*     coincide;                                                                                *)
(*   - polling an exchange that is not started or already done (Process is not offered then);  *)
(*   - a redo interval of zero: whether it disables retransmission or fires on every poll;     *)
(*     transmissions made by Process while redo = 0 are neither demanded nor forbidden (the    *)
(*     harness does not count them).                                                           *)
EXTENDS Integers, Sequences, TLC

CONSTANTS Settings,     \* quanta offered for timeout / redo besides "not given"
          DefTimeout,   \* class default .Timeout in quanta
          DefRedo,      \* class default .RedoTimeout in quanta
          MaxTime,      \* the clock reads 0..MaxTime (model bound)
          MaxStarts,    \* bound on (re)starts (model bound)
          Steps,        \* clock advances offered
          SerialMsgs    \* TRUE: the k-th start carries message k (keeps the model small); FALSE: any message

VARIABLES tset, rset,       \* the settings handed to the constructor: [k |-> "none"] or [k |-> "q", v |-> quanta]
          timeout, redo,    \* attributes .timeout / .redoTimeout resolved by the constructor (quanta)
          now,              \* stamp of the stack's stamper
          tstart, rstart,   \* when the overall / redo interval began
          started, done, failed,
          tx,               \* latest message
          sent,             \* transmissions since the latest start (the initial one included)
          last,             \* message carried by the latest transmission (0: none yet)
          lastAt,           \* when it was transmitted (history)
          starts,           \* number of starts so far
          res               \* what the last step did: "new" | "advance" | "start" | "send" | "transmit" | "idle" | "redo" | "fail" | "finish"
vars == <<tset, rset, timeout, redo, now, tstart, rstart, started, done, failed, tx, sent, last, lastAt, starts, res>>
config == <<tset, rset, timeout, redo>>

NotGiven == [k |-> "none"]
Given(q) == [k |-> "q", v |-> q]
Resolve(s, d) == IF s.k = "none" THEN d ELSE s.v

Init == /\ tset \in {NotGiven} \cup {Given(q) : q \in Settings}
        /\ rset \in {NotGiven} \cup {Given(q) : q \in Settings}
        /\ timeout = Resolve(tset, DefTimeout) /\ redo = Resolve(rset, DefRedo)
        /\ now = 0 /\ tstart = 0 /\ rstart = 0 /\ lastAt = 0
        /\ started = FALSE /\ done = FALSE /\ failed = FALSE
        /\ tx = 0 /\ sent = 0 /\ last = 0 /\ starts = 0 /\ res = "new"

\* environment: the stamper advances
Advance(dt) == /\ now + dt <= MaxTime
               /\ now' = now + dt /\ res' = "advance"
               /\ UNCHANGED <<config, tstart, rstart, started, done, failed, tx, sent, last, lastAt, starts>>

\* start(m): initiate (or initiate again after completion) with message m
Start(m) == /\ (~started \/ done) /\ starts < MaxStarts
            /\ SerialMsgs => m = starts + 1
            /\ started' = TRUE /\ done' = FALSE /\ failed' = FALSE
            /\ tstart' = now /\ rstart' = now
            /\ tx' = m /\ sent' = 1 /\ last' = m /\ lastAt' = now
            /\ starts' = starts + 1 /\ res' = "start"
            /\ UNCHANGED <<config, now>>

\* send(m) / transmit(m): a further message of the running exchange goes out and becomes the latest one
\* (both written out so that TLC labels the steps Send(m) / Transmit(m))
Send(m) ==
    /\ started /\ ~done /\ now = rstart
    /\ SerialMsgs => (tx < 10 /\ m = 10 * tx + 1)
    /\ tx' = m /\ sent' = sent + 1 /\ last' = m /\ lastAt' = now /\ res' = "send"
    /\ UNCHANGED <<config, now, tstart, rstart, started, done, failed, starts>>
Transmit(m) ==
    /\ started /\ ~done /\ now = rstart
    /\ SerialMsgs => (tx < 10 /\ m = 10 * tx + 2)
    /\ tx' = m /\ sent' = sent + 1 /\ last' = m /\ lastAt' = now /\ res' = "transmit"
    /\ UNCHANGED <<config, now, tstart, rstart, started, done, failed, starts>>

TimedOut == timeout > 0 /\ now - tstart >= timeout
RedoDue == redo > 0 /\ now - rstart >= redo

\* process(): poll.  The overall timeout comes first; otherwise one retransmission of the latest message per
\* elapsed redo interval, the next interval beginning at this poll.
Process == /\ started /\ ~done
           /\ IF TimedOut
              THEN /\ failed' = TRUE /\ done' = TRUE /\ res' = "fail"
                   /\ UNCHANGED <<rstart, sent, last, lastAt>>
              ELSE IF RedoDue
              THEN /\ sent' = sent + 1 /\ last' = tx /\ lastAt' = now /\ rstart' = now /\ res' = "redo"
                   /\ UNCHANGED <<failed, done>>
              ELSE /\ res' = "idle" /\ UNCHANGED <<failed, done, rstart, sent, last, lastAt>>
           /\ UNCHANGED <<config, now, tstart, started, tx, starts>>

\* finish(): the exchange completed (successfully unless it had failed)
Finish == /\ started /\ ~done
          /\ done' = TRUE /\ res' = "finish"
          /\ UNCHANGED <<config, now, tstart, rstart, started, failed, tx, sent, last, lastAt, starts>>

Next == \/ \E dt \in Steps : Advance(dt)
        \/ \E m \in 1..MaxStarts : Start(m)
        \/ \E m \in {11, 21, 31, 41} : Send(m)
        \/ \E m \in {12, 22, 32, 42} : Transmit(m)
        \/ Process
        \/ Finish
Spec == Init /\ [][Next]_vars

(* ---- properties (C38) ---- *)
\* every combination of settings yields an exchange whose attributes are the given values or the class defaults
SettingsResolved == /\ timeout = (IF tset.k = "none" THEN DefTimeout ELSE tset.v)
                    /\ redo = (IF rset.k = "none" THEN DefRedo ELSE rset.v)
Running == started /\ ~done
\* retransmissions carry the latest message and are at least a redo interval after the previous transmission
NoEarlyRedo == [][(Running /\ sent' = sent + 1 /\ res' \notin {"send", "transmit"}) => (redo > 0 /\ now - lastAt >= redo /\ last' = tx /\ Running')]_vars
\* whatever went out last is the latest message, and a redo repeats exactly it
LatestIsLast == (started /\ sent > 0) => last = tx
\* a poll never leaves a whole redo interval unanswered while the exchange keeps running
RedoWhenDue == (Running /\ res \in {"idle", "redo"} /\ redo > 0) => now - lastAt < redo
\* and answers it once
OncePerPoll == [][sent' # sent => (sent' = sent + 1 \/ res' = "start")]_vars
\* failure happens only when the overall timeout has elapsed, and then takes precedence over a redo
FailsOnlyAtTimeout == [][(failed' /\ ~failed) => (timeout > 0 /\ now - tstart >= timeout /\ sent' = sent)]_vars
\* a poll at or after the overall timeout fails the exchange
FailsAtTimeout == (started /\ res \in {"idle", "redo"}) => ~(timeout > 0 /\ now - tstart >= timeout)
ZeroNeverExpires == timeout = 0 => ~failed
FailedIsDone == failed => done
=============================================================================
