------------------------------ MODULE PktParts ------------------------------
(* Packet parts of ioflo/aio/proto/packeting.py as a STRUCTURAL table (extra X-packeting):      *)
(* field lists as sequences, sizes, which slice of the raw data a part holds after parse, where *)
(* the unparsed rest begins, when parse refuses.  No byte values occur: a byte is named by its  *)
(* position in the raw data (the binding fills positions with seeded random bytes).             *)
(*                                                                                              *)
(* From the docstrings:                                                                         *)
(*   Part            ".packed is bytearray of packed binary data", "size is initial size of     *)
(*                    .packed if packed not provided", "packed is initial .packed", ".size is    *)
(*                    length of .packed", __len__ "Returns the length of .packed", class         *)
(*                    attribute Size = 0                                                         *)
(*   PackerPart      ".fmt is the struct string format for the fixed size portion of part",     *)
(*                    "override size to match .packer.size", "raw is input bytearray of data to  *)
(*                    parse(unpack)", verifySize "Return True if len(raw) is at least long       *)
(*                    enough for packed size", parse "Parse raw bytearray and assign to fields.  *)
(*                    Return offset into raw of unparsed portion", raises ValueError "Not        *)
(*                    enough raw data for packer. Need {0} bytes, got {1} bytes", pack "Return   *)
(*                    .packed with data if any", ValueError "size packed={0} not match           *)
(*                    format={1}"                                                                *)
(*   PackifierPart   "packify/unpackify format is string of white space separated bit field     *)
(*                    lengths", "size is the least integer number of bytes that hold the fmt",   *)
(*                    .fmtSize "size given by .fmt"; verifySize, parse, pack as above            *)
(*   PacketPart      ".packet is Packet instance that holds this part"                           *)
(*   Packet          parse "Parse raw data into .packed", pack "Pack into .packed", ".stack is   *)
(*                    I/O stack that handles this packet", "Need to add parts to packet in       *)
(*                    subclass"                                                                  *)
(* A chain is what a packet subclass does with its parts: each part parses the raw data from    *)
(* the offset the previous one returned.                                                        *)
(*                                                                                              *)
(* A part is [t |-> "packer" | "packifier", f |-> field list]: byte widths of the struct fields *)
(* (network order, no padding) or bit lengths of the bit fields.                                 *)
EXTENDS Integers, Sequences, FiniteSets, SequencesExt, TLC, Json, IOUtils

CONSTANTS MaxRaw,       \* raw data lengths 0..MaxRaw
          Widths,       \* byte widths of struct fields offered
          Bits,         \* bit lengths of bit fields offered
          MaxFields,    \* fields of a part parsed alone
          ChainFields,  \* fields of a part inside a chain
          MaxChain,     \* parts in a chain
          Sizes         \* sizes / initial contents offered to the plain Part constructor

RECURSIVE Sum(_)
Sum(s) == IF s = <<>> THEN 0 ELSE Head(s) + Sum(Tail(s))
SeqsUpTo(S, n) == UNION {[1..k -> S] : k \in 0..n}

Parts(n) == {[t |-> "packer", f |-> f] : f \in SeqsUpTo(Widths, n)} \cup
            {[t |-> "packifier", f |-> f] : f \in SeqsUpTo(Bits, n)}
\* the size of a part: the bytes of its fields; for bit fields the least number of whole bytes that hold them
Size(p) == IF p.t = "packer" THEN Sum(p.f) ELSE (Sum(p.f) + 7) \div 8

Chains == {<<p>> : p \in Parts(MaxFields)} \cup
          UNION {[1..k -> Parts(ChainFields)] : k \in 2..MaxChain}

\* offset (bytes before) part i of chain c
Off(c, i) == Sum([j \in 1..(i - 1) |-> Size(c[j])])
Total(c) == Off(c, Len(c) + 1)
\* part i finds enough raw data (raw data of length L, everything before it parsed)
Enough(c, i, L) == L - Off(c, i) >= Size(c[i])
\* the first part that refuses (0: none)
Failed(c, L) == IF \A i \in 1..Len(c) : Enough(c, i, L) THEN 0
                ELSE CHOOSE i \in 1..Len(c) : ~Enough(c, i, L) /\ \A j \in 1..(i - 1) : Enough(c, j, L)
Accepted(c, L) == IF Failed(c, L) = 0 THEN Len(c) ELSE Failed(c, L) - 1
\* positions (1-based, inclusive) of the raw data held by part i after a successful parse; <<o+1, o>> is the empty slice
Slice(c, i) == <<Off(c, i) + 1, Off(c, i) + Size(c[i])>>
Positions(sl) == [k \in 1..(sl[2] - sl[1] + 1) |-> sl[1] + k - 1]
RECURSIVE Cat(_)
Cat(ss) == IF ss = <<>> THEN <<>> ELSE Head(ss) \o Cat(Tail(ss))

ParseRow(c, L) ==
    LET n == Accepted(c, L) IN
    [k |-> "chain", parts |-> c, L |-> L,
     sizes |-> [i \in 1..Len(c) |-> Size(c[i])],
     enough |-> [i \in 1..Len(c) |-> (L - Off(c, i) >= Size(c[i]))],      \* verifySize on the data from the part's offset
     failed |-> Failed(c, L),
     slices |-> [i \in 1..n |-> Slice(c, i)],
     rest |-> Off(c, n + 1)]

None == 0 - 1      \* "not given"
PartRow(s, g) == [k |-> "part", size |-> s, given |-> g,
                  len |-> IF g # None THEN g ELSE IF s # None THEN s ELSE 0,
                  zeros |-> g = None]
PacketRow(L) == [k |-> "packet", L |-> L, len |-> L, rest |-> L]

Cases == {<<"chain", c, L>> : c \in Chains, L \in 0..MaxRaw} \cup
         {<<"part", s, g>> : s \in Sizes \cup {None}, g \in Sizes \cup {None}} \cup
         {<<"packet", L, 0>> : L \in 0..MaxRaw}

VARIABLE c
Init == c \in Cases
Next == UNCHANGED c
Spec == Init /\ [][Next]_c

IsChain == c[1] = "chain"
Row == ParseRow(c[2], c[3])

\* the slices of the parsed parts are adjacent, start at the first byte and end where the unparsed rest begins
SlicesPartition == IsChain =>
    LET r == Row IN
    /\ \A i \in 1..Len(r.slices) : r.slices[i][1] = (IF i = 1 THEN 1 ELSE r.slices[i - 1][2] + 1)
    /\ r.rest = (IF r.slices = <<>> THEN 0 ELSE r.slices[Len(r.slices)][2])
    /\ r.rest <= r.L
\* pack o parse is the identity on the parsed prefix: the parts' contents in order are the first `rest` raw bytes
PackParseIdentity == IsChain => Cat([i \in 1..Len(Row.slices) |-> Positions(Row.slices[i])]) = [k \in 1..Row.rest |-> k]
\* parse accepts exactly when the raw data holds all parts, and then everything is parsed
Threshold == IsChain => /\ (Row.failed = 0) <=> (c[3] >= Total(c[2]))
                        /\ (Row.failed = 0) => Row.rest = Total(c[2])
                        /\ (Row.failed # 0) => Row.rest = Off(c[2], Row.failed) /\ ~Row.enough[Row.failed]
\* bytes behind the parsed prefix never matter: longer raw data parses at least the same parts into the same slices
Monotone == (IsChain /\ c[3] < MaxRaw) =>
    LET r == Row
        q == ParseRow(c[2], c[3] + 1) IN
    /\ Len(q.slices) >= Len(r.slices)
    /\ \A i \in 1..Len(r.slices) : q.slices[i] = r.slices[i]
\* parse o pack: what the parts pack (Total bytes) parses again into the same slices
RoundTrip == IsChain => ParseRow(c[2], Total(c[2])).failed = 0 /\
                        ParseRow(c[2], Total(c[2])).slices = [i \in 1..Len(c[2]) |-> Slice(c[2], i)]
\* a bit field part takes the least number of whole bytes
LeastBytes == IsChain => \A i \in 1..Len(c[2]) :
    c[2][i].t = "packifier" => /\ 8 * Size(c[2][i]) >= Sum(c[2][i].f)
                               /\ (Size(c[2][i]) > 0 => 8 * (Size(c[2][i]) - 1) < Sum(c[2][i].f))

Table == LET s == SetToSeq(Cases) IN
    [i \in 1..Len(s) |-> CASE s[i][1] = "chain" -> ParseRow(s[i][2], s[i][3])
                           [] s[i][1] = "part" -> PartRow(s[i][2], s[i][3])
                           [] OTHER -> PacketRow(s[i][2])]
\* written once at start-up for the harness to replay against the implementation (binding C)
ASSUME JsonSerialize(IOEnv.TABLE_OUT, Table)
=============================================================================
