---------------------------- MODULE RemotesTrace ----------------------------
(* Binding B for Remotes.tla: a recorded history of operations on a real RemoteStack.          *)
(* Header event {"ev": "Init", "puid": p}; then one event per operation                         *)
(*   {"ev": name, arguments (id | u, n, h | new), "res": result,                                *)
(*    "uidIx": [[key, id], ...], "nameIx": ..., "haIx": ..., "attr": [[id, [u, n, h]], ...],     *)
(*    "puid": p}                                                                                *)
(* where the indexes, attributes and counter are what the stack shows after the operation.     *)
(* Every logged value must equal what the specification's action produces.                     *)
EXTENDS Remotes, TraceBatch

VARIABLES tid, l
tvars == <<vars, tid, l>>

Ev == EvAt(tid, l)

TraceInit == /\ tid \in 1..NTraces
             /\ l = 2
             /\ uidIx = <<>> /\ nameIx = <<>> /\ haIx = <<>> /\ attr = <<>> /\ res = Ok
             /\ puid = EvAt(tid, 1).puid

AttrLogged == /\ Len(Ev.attr) = Cardinality(DOMAIN attr')
              /\ \A i \in 1..Len(Ev.attr) : /\ Ev.attr[i][1] \in DOMAIN attr'
                                           /\ attr'[Ev.attr[i][1]] = Ev.attr[i][2]

Logged == /\ res' = Ev.res
          /\ uidIx' = Ev.uidIx /\ nameIx' = Ev.nameIx /\ haIx' = Ev.haIx
          /\ puid' = Ev.puid
          /\ AttrLogged

Consume(name) == l <= TraceLen(tid) /\ Ev.ev = name /\ l' = l + 1 /\ UNCHANGED tid

TraceNext ==
    \/ Consume("Add") /\ Add(Ev.u, Ev.n, Ev.h) /\ Logged
    \/ Consume("AddAuto") /\ AddAuto(Ev.n, Ev.h) /\ Logged
    \/ Consume("AddAgain") /\ AddAgain(Ev.id) /\ Logged
    \/ Consume("Move") /\ Move(Ev.id, Ev.new) /\ Logged
    \/ Consume("Rename") /\ Rename(Ev.id, Ev.new) /\ Logged
    \/ Consume("Reha") /\ Reha(Ev.id, Ev.new) /\ Logged
    \/ Consume("Remove") /\ Remove(Ev.id) /\ Logged
    \/ Consume("RemoveAll") /\ RemoveAll /\ Logged
    \/ Consume("MoveF") /\ MoveF(Ev.u, Ev.n, Ev.h, Ev.new) /\ Logged
    \/ Consume("RenameF") /\ RenameF(Ev.u, Ev.n, Ev.h, Ev.new) /\ Logged
    \/ Consume("RehaF") /\ RehaF(Ev.u, Ev.n, Ev.h, Ev.new) /\ Logged
    \/ Consume("RemoveF") /\ RemoveF(Ev.u, Ev.n, Ev.h) /\ Logged

TraceSpec == TraceInit /\ [][TraceNext]_tvars
TraceOK == TraceConstraint(tid, l)
=============================================================================
