------------------------------ MODULE Remotes ------------------------------
(* Remote indexes of a stack (ioflo.aio.proto.stacking.RemoteStack), property C37.             *)
(*                                                                                             *)
(* Written from the docstrings ("Uniquely add a remote to indexes", "Uniquely move remote at   *)
(* remote.uid to new uid but keep same index", "Uniquely rename ... but keep same index",      *)
(* "Remove remote from all remote indexes", ".remotes is odict of remotes indexed by uid,      *)
(* .nameRemotes ... by name, .haRemotes ... by ha", "puid is previous uid for devices managed  *)
(* by this stack", nextUid "Generates next unique id number for local or remotes") and the     *)
(* statement of C37.  A rejected operation raises ValueError (pinned by testRemoteStack).      *)
(*                                                                                             *)
(* A remote is an object; the model names objects by small identities.  The three indexes are  *)
(* explicit sequences of <<key, identity>> in iteration order; `attr` holds the uid/name/ha    *)
(* attributes carried by the member objects themselves.  Operations are offered on members, on *)
(* members again (re-add) and on foreign objects: remotes that are not in the stack but carry  *)
(* keys that may equal a member's ("not identical") or nobody's ("does not exist").            *)
(* Keys are abstract here: the model only uses equality of keys.  The harness concretises names  *)
(* and addresses as path-like strings that contain one another and addresses also as (host,     *)
(* port) duples, because that is where "equal" and "contained in" differ in the implementation.  *)
(* Where the documentation is silent the model does not decide:                                *)
(*   - moving / renaming / re-addressing to the key the remote already has is reported as      *)
(*     "noop" whether the implementation accepts or rejects it; nothing may change.            *)
EXTENDS Naturals, Sequences, FiniteSets, TLC

CONSTANTS Uids, Names, Has,               \* keys offered to the operations (they include the local device's keys)
          LocalUid, LocalName, LocalHa,   \* keys of the stack's local device
          MaxRemotes,                     \* bound on members (model only)
          MaxPuid,                        \* bound on the uid counter (model only)
          AutoUid                         \* TRUE: remotes with automatically assigned uid are offered

VARIABLES uidIx, nameIx, haIx,   \* the indexes: sequences of <<key, identity>> in iteration order
          attr,                  \* [identity of member -> <<uid, name, ha>>] attributes of the member objects
          puid,                  \* previous uid handed out by the stack
          res                    \* result of the last operation
vars == <<uidIx, nameIx, haIx, attr, puid, res>>
state == <<uidIx, nameIx, haIx, attr>>

Ids == 1..MaxRemotes
\* keys of foreign objects that collide with nothing
FreshUid == 0
FreshName == "fn"
FreshHa == "fh"
ASSUME FreshUid \notin Uids /\ FreshName \notin Names /\ FreshHa \notin Has

Keys(ix) == {ix[i][1] : i \in 1..Len(ix)}
IdSeq(ix) == [i \in 1..Len(ix) |-> ix[i][2]]
IdsOf(ix) == {ix[i][2] : i \in 1..Len(ix)}
Members == IdsOf(uidIx)
KeyPos(ix, k) == CHOOSE i \in 1..Len(ix) : ix[i][1] = k
IdPos(ix, id) == CHOOSE i \in 1..Len(ix) : ix[i][2] = id
IdAt(ix, k) == ix[KeyPos(ix, k)][2]
ReplaceKey(ix, id, new) == [i \in 1..Len(ix) |-> IF ix[i][2] = id THEN <<new, id>> ELSE ix[i]]
Without(ix, id) == SelectSeq(ix, LAMBDA e : e[2] # id)
Min(S) == CHOOSE x \in S : \A y \in S : x <= y
FreeId == Min(Ids \ Members)

TakenUids == Keys(uidIx) \cup {LocalUid}
TakenNames == Keys(nameIx) \cup {LocalName}
TakenHas == Keys(haIx) \cup {LocalHa}

Ok == [t |-> "ok"]
\* rejected: ValueError, and the remote handed in still carries the keys it had
Rej == [t |-> "err", e |-> "ValueError", intact |-> TRUE]
Noop == [t |-> "noop"]
Reject == UNCHANGED state /\ res' = Rej

Init == /\ uidIx = <<>> /\ nameIx = <<>> /\ haIx = <<>> /\ attr = <<>>
        /\ puid = LocalUid /\ res = Ok

(* ---- add ---- *)
AddObj(u, n, h) ==
    IF u \in TakenUids \/ n \in TakenNames \/ h \in TakenHas THEN Reject
    ELSE /\ Len(uidIx) < MaxRemotes
         /\ LET id == FreeId IN
            /\ uidIx' = Append(uidIx, <<u, id>>)
            /\ nameIx' = Append(nameIx, <<n, id>>)
            /\ haIx' = Append(haIx, <<h, id>>)
            /\ attr' = [x \in Members \cup {id} |-> IF x = id THEN <<u, n, h>> ELSE attr[x]]
         /\ res' = Ok

\* a new remote created with an explicit uid
Add(u, n, h) == AddObj(u, n, h) /\ UNCHANGED puid

\* a new remote created without uid: the stack hands out the next unused uid after puid
NextFree(p) == Min({x \in (p + 1)..(p + MaxRemotes + 2) : x \notin TakenUids})
AddAuto(n, h) == AutoUid /\ LET u == NextFree(puid) IN AddObj(u, n, h) /\ puid' = u

\* adding a member once more
AddAgain(id) == id \in Members /\ Reject /\ UNCHANGED puid

(* ---- move / rename / re-address a member (in place) ---- *)
Move(id, new) == /\ id \in Members /\ UNCHANGED puid
    /\ IF new = attr[id][1] THEN UNCHANGED state /\ res' = Noop
       ELSE IF new \in TakenUids THEN Reject
       ELSE /\ uidIx' = ReplaceKey(uidIx, id, new)
            /\ attr' = [attr EXCEPT ![id] = <<new, @[2], @[3]>>]
            /\ UNCHANGED <<nameIx, haIx>> /\ res' = Ok

Rename(id, new) == /\ id \in Members /\ UNCHANGED puid
    /\ IF new = attr[id][2] THEN UNCHANGED state /\ res' = Noop
       ELSE IF new \in TakenNames THEN Reject
       ELSE /\ nameIx' = ReplaceKey(nameIx, id, new)
            /\ attr' = [attr EXCEPT ![id] = <<@[1], new, @[3]>>]
            /\ UNCHANGED <<uidIx, haIx>> /\ res' = Ok

Reha(id, new) == /\ id \in Members /\ UNCHANGED puid
    /\ IF new = attr[id][3] THEN UNCHANGED state /\ res' = Noop
       ELSE IF new \in TakenHas THEN Reject
       ELSE /\ haIx' = ReplaceKey(haIx, id, new)
            /\ attr' = [attr EXCEPT ![id] = <<@[1], @[2], new>>]
            /\ UNCHANGED <<uidIx, nameIx>> /\ res' = Ok

(* ---- remove ---- *)
Remove(id) == /\ id \in Members /\ UNCHANGED puid
    /\ uidIx' = Without(uidIx, id) /\ nameIx' = Without(nameIx, id) /\ haIx' = Without(haIx, id)
    /\ attr' = [x \in Members \ {id} |-> attr[x]]
    /\ res' = Ok

RemoveAll == /\ UNCHANGED puid
    /\ uidIx' = <<>> /\ nameIx' = <<>> /\ haIx' = <<>> /\ attr' = <<>> /\ res' = Ok

(* ---- the same operations handed a foreign object (not a member) carrying keys u, n, h ---- *)
\* whatever the keys: the new key is taken, or the old key is nobody's, or it is a member's (not identical)
MoveF(u, n, h, new) == UNCHANGED <<state, puid>> /\ res' = IF new = u THEN Noop ELSE Rej
RenameF(u, n, h, new) == UNCHANGED <<state, puid>> /\ res' = IF new = n THEN Noop ELSE Rej
RehaF(u, n, h, new) == UNCHANGED <<state, puid>> /\ res' = IF new = h THEN Noop ELSE Rej
RemoveF(u, n, h) == UNCHANGED <<state, puid>> /\ res' = Rej

\* foreign objects offered in the complete graph: a twin of the member holding key k in that dimension,
\* or, when nobody holds k, a stranger carrying k and otherwise fresh keys
Twin(dim, k) ==
    LET ix == CASE dim = 1 -> uidIx [] dim = 2 -> nameIx [] OTHER -> haIx IN
    IF k \in Keys(ix) THEN attr[IdAt(ix, k)]
    ELSE CASE dim = 1 -> <<k, FreshName, FreshHa>> [] dim = 2 -> <<FreshUid, k, FreshHa>> [] OTHER -> <<FreshUid, FreshName, k>>
\* (written out rather than through MoveF etc. so that TLC labels the step with k and new)
ForeignRes(old, new) == IF new = old THEN Noop ELSE Rej
MoveT(k, new) == UNCHANGED <<state, puid>> /\ res' = ForeignRes(Twin(1, k)[1], new)
RenameT(k, new) == UNCHANGED <<state, puid>> /\ res' = ForeignRes(Twin(2, k)[2], new)
RehaT(k, new) == UNCHANGED <<state, puid>> /\ res' = ForeignRes(Twin(3, k)[3], new)
RemoveT(dim, k) == UNCHANGED <<state, puid>> /\ res' = Rej

Next == \/ \E u \in Uids, n \in Names, h \in Has : Add(u, n, h)
        \/ \E n \in Names, h \in Has : AddAuto(n, h)
        \/ \E id \in Ids : AddAgain(id) \/ Remove(id)
        \/ \E id \in Ids, new \in Uids : Move(id, new)
        \/ \E id \in Ids, new \in Names : Rename(id, new)
        \/ \E id \in Ids, new \in Has : Reha(id, new)
        \/ RemoveAll
        \/ \E k \in Uids, new \in Uids : MoveT(k, new)
        \/ \E k \in Names, new \in Names : RenameT(k, new)
        \/ \E k \in Has, new \in Has : RehaT(k, new)
        \/ \E k \in Uids : RemoveT(1, k)
        \/ \E k \in Names : RemoveT(2, k)
        \/ \E k \in Has : RemoveT(3, k)
Spec == Init /\ [][Next]_vars

Bound == puid <= MaxPuid

(* ---- properties (C37) ---- *)
Distinct(s) == \A i, j \in 1..Len(s) : i # j => s[i] # s[j]
\* the three indexes hold exactly the same remotes, once each
SameMembers == /\ IdsOf(uidIx) = IdsOf(nameIx) /\ IdsOf(nameIx) = IdsOf(haIx)
               /\ Distinct(IdSeq(uidIx)) /\ Distinct(IdSeq(nameIx)) /\ Distinct(IdSeq(haIx))
               /\ DOMAIN attr = Members
\* and iterate them in the same order
SameOrder == IdSeq(uidIx) = IdSeq(nameIx) /\ IdSeq(nameIx) = IdSeq(haIx)
\* every remote sits under the key it currently carries, and keys are unique
KeysCurrent == /\ \A i \in 1..Len(uidIx) : uidIx[i][1] = attr[uidIx[i][2]][1]
               /\ \A i \in 1..Len(nameIx) : nameIx[i][1] = attr[nameIx[i][2]][2]
               /\ \A i \in 1..Len(haIx) : haIx[i][1] = attr[haIx[i][2]][3]
               /\ Cardinality(Keys(uidIx)) = Len(uidIx) /\ Cardinality(Keys(nameIx)) = Len(nameIx)
               /\ Cardinality(Keys(haIx)) = Len(haIx)
NoLocalCollision == LocalUid \notin Keys(uidIx) /\ LocalName \notin Keys(nameIx) /\ LocalHa \notin Keys(haIx)
\* a rejected (or undecided same-key) operation changes nothing
RejectedUnchanged == [][res'.t \in {"err", "noop"} => UNCHANGED state]_vars
\* move / rename / re-address keep every remote's position in all three iteration orders
PositionKept == [][Members' = Members =>
                     /\ IdSeq(uidIx') = IdSeq(uidIx) /\ IdSeq(nameIx') = IdSeq(nameIx) /\ IdSeq(haIx') = IdSeq(haIx)]_vars
\* a new member goes last, removal keeps the order of the others
AddLastRemoveStable == [][\A a, b \in Members \cap Members' :
                            (IdPos(uidIx, a) < IdPos(uidIx, b)) <=> (IdPos(uidIx', a) < IdPos(uidIx', b))]_vars
\* automatically assigned uids are unused ones
AutoUidFresh == [][puid' # puid => puid' \notin TakenUids /\ puid' > puid]_vars
=============================================================================
