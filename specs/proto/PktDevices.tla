----------------------------- MODULE PktDevices -----------------------------
(* Devices of ioflo/aio/proto/devicing.py as a table (extra X-packeting): which uid a new       *)
(* device gets, what that does to the stack's uid counter, and which host address an IP device  *)
(* ends up with.                                                                                *)
(*                                                                                              *)
(* From the docstrings (and, where they are silent, the pinned tests test_devicing.py /         *)
(* test_stacking.py, quoted):                                                                   *)
(*   Device          "uid is unique device id", "name is user friendly name of device",         *)
(*                    "ha is device host address", "kind is type of device"                     *)
(*   Stack           "puid is previous uid for devices managed by this stack", nextUid          *)
(*                    "Generates next unique id number for local or remotes"                    *)
(*   RemoteDevice    a remote made without uid gets one that no remote of the stack and not the *)
(*                    local device has (statement of C37 "automatically assigned uids are       *)
(*                    unused ones"; testDevice: first remote of a fresh stack gets 2)           *)
(*   SingleRemoteDevice  "uids is sequence or set of used uids to not use for remote if uid not *)
(*                    provided", attribute ".uids is sequence or set of used uids ..."           *)
(*   IpDevice        "ha is device udp host address, a duple (host,port)"; properties host /    *)
(*                    port "returns host [port] of local interface ha duple (host, port)",      *)
(*                    "Setter for host [port] property"; tests: no ha -> ('127.0.0.1', Port of  *)
(*                    the stack), ('localhost', p) -> ('127.0.0.1', p), ('', p) [all            *)
(*                    interfaces, '0.0.0.0'] -> ('127.0.0.1', p), a numeric host is kept         *)
(*                                                                                              *)
(* A case is one construction: the class family, the uid handed in (0: none), the stack's       *)
(* counter, the local device's uid, and a set S of uids: the uids of the remotes already in the *)
(* stack (family "remote") or the `uids` argument (family "single"; nouids: argument omitted).  *)
EXTENDS Integers, FiniteSets, Sequences, SequencesExt, TLC, Json, IOUtils

CONSTANTS MaxUid,    \* uids 1..MaxUid
          MaxPuid    \* the stack's counter before the construction: 0..MaxPuid

Uids == 1..MaxUid
Families == {"plain", "remote", "single"}

Cases == {<<"uid", f, g, p, l, S, n>> : f \in Families, g \in 0..MaxUid, p \in 0..MaxPuid, l \in 1..2,
                                       S \in SUBSET Uids, n \in BOOLEAN}
UidCases == {x \in Cases : /\ (x[2] = "plain" => x[6] = {} /\ ~x[7])
                           /\ (x[2] = "remote" => x[5] \notin x[6] /\ ~x[7])      \* a remote never has the local uid
                           /\ (x[7] => x[6] = {})}

\* the uids a device made without uid must not get
Avoid(f, l, S) == IF f = "plain" THEN {} ELSE S \cup {l}
Least(T) == CHOOSE x \in T : \A y \in T : x <= y
NextFree(p, A) == Least({x \in (p + 1)..(p + MaxUid + 2) : x \notin A})

UidRow(x) ==
    LET f == x[2]  g == x[3]  p == x[4]  l == x[5]  S == x[6]
        u == IF g # 0 THEN g ELSE NextFree(p, Avoid(f, l, S)) IN
    [k |-> "uid", family |-> f, given |-> g, puid |-> p, local |-> l, set |-> SetToSeq(S), nouids |-> x[7],
     uid |-> u, puidAfter |-> IF g # 0 THEN p ELSE u]

\* host forms handed to an IP device -> the form it ends up with
HaForms == {"none", "numeric", "name", "any", "empty"}
HaRow(h) == [k |-> "ha", given |-> h,
             host |-> CASE h = "numeric" -> "same" [] OTHER -> "loopback",
             port |-> IF h = "none" THEN "stack" ELSE "same"]

AllCases == UidCases \cup {<<"ha", h, 0, 0, 0, {}, FALSE>> : h \in HaForms}

VARIABLE c
Init == c \in AllCases
Next == UNCHANGED c
Spec == Init /\ [][Next]_c

IsUid == c[1] = "uid"
R == UidRow(c)
\* a uid handed in is kept and does not move the counter
GivenKept == (IsUid /\ c[3] # 0) => R.uid = c[3] /\ R.puidAfter = c[4]
\* an assigned uid is unused, beyond the counter, and the least such; the counter follows it
AutoFresh == (IsUid /\ c[3] = 0) =>
    /\ R.uid \notin Avoid(c[2], c[5], c[6]) /\ R.uid > c[4]
    /\ \A x \in (c[4] + 1)..(R.uid - 1) : x \in Avoid(c[2], c[5], c[6])
    /\ R.puidAfter = R.uid
\* without anything to avoid the next uid is the counter plus one
PlainNext == (IsUid /\ c[3] = 0 /\ Avoid(c[2], c[5], c[6]) = {}) => R.uid = c[4] + 1

Table == LET s == SetToSeq(AllCases) IN
    [i \in 1..Len(s) |-> IF s[i][1] = "uid" THEN UidRow(s[i]) ELSE HaRow(s[i][2])]
ASSUME JsonSerialize(IOEnv.TABLE_OUT, Table)
=============================================================================
