--------------------------------- MODULE Crc ---------------------------------
(* Cyclic redundancy checks of ioflo.aid.checking (property C41), specified from the CRC        *)
(* catalogue's parametric model, NOT from the shift loops of the implementation:                *)
(*                                                                                              *)
(*   a model is (width n, poly, init, xorout), not reflected.  The message is the polynomial    *)
(*   over GF(2) whose coefficients are its bits, first byte first, most significant bit first.  *)
(*   crc(M) = xorout + ( (M * x^n  +  init * x^|M|)  mod  (x^n + poly) )                        *)
(*                                                                                              *)
(*   CRC-16/GENIBUS  width=16 poly=0x1021 init=0xFFFF xorout=0xFFFF check=0xD64E residue=0x1D0F *)
(*   CRC-64/WE       width=64 poly=0x42F0E1EBA9EA3693 init=xorout=0xFFFFFFFFFFFFFFFF            *)
(*                   check=0x62EC59E3F1A4F00A residue=0xFCACBEBD5931A992                        *)
(*                                                                                              *)
(* Two definitions are given and TLC checks that they agree:                                    *)
(*   Div : schoolbook long division of the augmented bit string (the definition above);         *)
(*   Tab : the bytewise recurrence over a 256 entry table whose entries are themselves          *)
(*         remainders computed by Div (the "table driven reference" of the property).           *)
(* TLC integers have 32 bits, so a register is a sequence of 16 bit limbs, most significant     *)
(* first (one limb for n = 16, four for n = 64); exclusive or comes from the Bitwise module.    *)
(*                                                                                              *)
(* Cases (byte strings) are the initial states: every string of length 0..MaxLen whose first    *)
(* byte falls in this shard, plus the strings of the JSON file CASES_FILE written by the        *)
(* harness (seeded random strings up to 1 KiB, and strings whose last bytes the harness picked   *)
(* so that the checksum lands on a boundary value - all ones / zero / sign bit halves ...; what *)
(* their checksum IS is computed here like for any other string).  The (input -> output) table  *)
(* goes to TABLE_OUT.                                                                           *)
EXTENDS Integers, Sequences, SequencesExt, FiniteSets, TLC, Json, IOUtils, Bitwise

CONSTANTS MaxLen,      \* all byte strings of length 0..MaxLen are enumerated
          Shard, NShards,   \* this run takes the strings whose first byte b has b % NShards = Shard (empty string: shard 0)
          DivMax,      \* file cases up to this length are also computed by long division
          LemmaStep    \* the invariants are evaluated on every LemmaStep-th enumerated two byte string (1 = all of them);
                       \* the table always holds every string

Byte == 0..255
Zeros(k) == [i \in 1..k |-> 0]
BitsOf(x, w) == [i \in 1..w |-> (x \div 2^(w - i)) % 2]          \* big endian, x in 0..2^w-1
ValOf(bs) == FoldLeft(LAMBDA acc, b : 2 * acc + b, 0, bs)
XorBits(a, b) == [i \in DOMAIN a |-> (a[i] + b[i]) % 2]

LimbsToBits(ls) == FlattenSeq([i \in DOMAIN ls |-> BitsOf(ls[i], 16)])
BitsToLimbs(bs) == [k \in 1..(Len(bs) \div 16) |-> ValOf(SubSeq(bs, 16 * k - 15, 16 * k))]
MsgBits(m) == FlattenSeq([i \in DOMAIN m |-> BitsOf(m[i], 8)])
XorLimbs(a, b) == [i \in DOMAIN a |-> a[i] ^^ b[i]]

\* ---- the two catalogue models (limbs written in hexadecimal) ----
GENIBUS == [width |-> 16, poly |-> <<\H1021>>, init |-> <<\HFFFF>>, xorout |-> <<\HFFFF>>]
WE      == [width |-> 64, poly |-> <<\H42F0, \HE1EB, \HA9EA, \H3693>>,
            init |-> <<\HFFFF, \HFFFF, \HFFFF, \HFFFF>>, xorout |-> <<\HFFFF, \HFFFF, \HFFFF, \HFFFF>>]

\* ---- definition 1: polynomial long division over GF(2) ----
\* Remainder of the bit string d (length L + n) modulo the generator <<1>> \o p (degree n): for every position
\* i = 1..L whose coefficient is still 1, subtract (xor) the generator aligned at i; the last n bits remain.
Rem(d, p) ==
    LET n == Len(p)
        g == <<1>> \o p
        L == Len(d) - n
        sub(x, i) == IF x[i] = 0 THEN x
                     ELSE [j \in 1..Len(x) |-> IF j >= i /\ j <= i + n THEN (x[j] + g[j - i + 1]) % 2 ELSE x[j]]
        r == FoldLeft(sub, d, [i \in 1..L |-> i])
    IN  SubSeq(r, L + 1, L + n)

\* init * x^|M| added to M * x^n: the first n bits of the augmented string are complemented by init
Augmented(mb, n, ib) == LET d == mb \o Zeros(n) IN XorBits(SubSeq(d, 1, n), ib) \o SubSeq(d, n + 1, Len(d))

CrcDiv(model, m) ==
    LET p == LimbsToBits(model.poly) IN
    XorLimbs(BitsToLimbs(Rem(Augmented(MsgBits(m), model.width, LimbsToBits(model.init)), p)), model.xorout)

\* ---- definition 2: bytewise table driven recurrence ----
\* entry b = (b * x^n) mod generator, by the division above (no init, no xorout)
TableOf(model) == [b \in Byte |-> BitsToLimbs(Rem(BitsOf(b, 8) \o Zeros(model.width), LimbsToBits(model.poly)))]
Tab16 == TableOf(GENIBUS)
Tab64 == TableOf(WE)

\* one byte: the top byte of the register leaves, the byte enters through the table
TabStep(tab, reg, byte) ==
    LET W == Len(reg)
        idx == (reg[1] \div 256) ^^ byte
        shifted == [i \in 1..W |-> (reg[i] % 256) * 256 + (IF i < W THEN reg[i + 1] \div 256 ELSE 0)]
    IN  XorLimbs(shifted, tab[idx])

CrcTab(model, tab, m) == XorLimbs(FoldLeft(LAMBDA reg, byte : TabStep(tab, reg, byte), model.init, m), model.xorout)

Crc16(m) == CrcTab(GENIBUS, Tab16, m)
Crc64(m) == CrcTab(WE, Tab64, m)

\* limbs -> big endian bytes (a checksum appended to its message)
LimbBytes(ls) == FlattenSeq([i \in DOMAIN ls |-> <<ls[i] \div 256, ls[i] % 256>>])

\* ---- anchors to the catalogue ----
Check == <<49, 50, 51, 52, 53, 54, 55, 56, 57>>       \* "123456789"
ASSUME CrcDiv(GENIBUS, Check) = <<\HD64E>>
ASSUME Crc16(Check) = <<\HD64E>>
ASSUME CrcDiv(WE, Check) = <<\H62EC, \H59E3, \HF1A4, \HF00A>>
ASSUME Crc64(Check) = <<\H62EC, \H59E3, \HF1A4, \HF00A>>
\* generator table spot values: entry 1 is the polynomial itself, entry 0 is zero
ASSUME Tab16[0] = <<0>> /\ Tab16[1] = GENIBUS.poly /\ Tab64[0] = <<0, 0, 0, 0>> /\ Tab64[1] = WE.poly
\* residues: a message followed by its own checksum (big endian) always leaves the same register
Residue16 == XorLimbs(Crc16(LimbBytes(Crc16(<<>>))), GENIBUS.xorout)
Residue64 == XorLimbs(Crc64(LimbBytes(Crc64(<<>>))), WE.xorout)
ASSUME Residue16 = <<\H1D0F>>
ASSUME Residue64 = <<\HFCAC, \HBEBD, \H5931, \HA992>>

\* ---- cases ----
Strings(n) == [1..n -> Byte]
Mine(m) == IF Len(m) = 0 THEN Shard = 0 ELSE m[1] % NShards = Shard
GridSet == {m \in UNION {Strings(n) : n \in 0..MaxLen} : Mine(m)}
FileCases == JsonDeserialize(IOEnv.CASES_FILE)            \* sequence of records [m |-> <<bytes>>]
Cases == SetToSeq(GridSet) \o [i \in 1..Len(FileCases) |-> FileCases[i].m]
NGrid == Cardinality(GridSet)

Table == LET cs == Cases IN [i \in 1..Len(cs) |-> LET m == cs[i] IN [m |-> m, c16 |-> Crc16(m)[1], c64 |-> Crc64(m)]]

\* every case is an initial state (the state IS the byte string, nothing moves): TLC evaluates the invariants on each
VARIABLE c
Init == c \in {Cases[i] : i \in 1..Len(Cases)}
Next == UNCHANGED c
Spec == Init /\ [][Next]_c

Msg == c
Enumerated == Len(Msg) <= MaxLen
Short == Enumerated \/ Len(Msg) <= DivMax
Lemma == ~Enumerated \/ Len(Msg) <= 1 \/ (Msg[1] + 7 * Msg[2]) % LemmaStep = 0

\* ---- properties ----
\* the table driven recurrence computes the polynomial division
DivIsTab16 == (Lemma /\ Short) => CrcDiv(GENIBUS, Msg) = Crc16(Msg)
DivIsTab64 == (Lemma /\ Short) => CrcDiv(WE, Msg) = Crc64(Msg)
InRange == Crc16(Msg)[1] \in 0..65535 /\ \A i \in 1..4 : Crc64(Msg)[i] \in 0..65535
\* a codeword (message followed by its big endian checksum) leaves the constant residue
Codeword16 == Lemma => XorLimbs(Crc16(Msg \o LimbBytes(Crc16(Msg))), GENIBUS.xorout) = Residue16
Codeword64 == Lemma => XorLimbs(Crc64(Msg \o LimbBytes(Crc64(Msg))), WE.xorout) = Residue64
\* affine over GF(2): crc(a) + crc(b) + crc(0..0) = crc(a + b) for strings of one length
Mask(n) == [i \in 1..n |-> (37 * i + 90) % 256]
XorMsg(a, b) == [i \in DOMAIN a |-> a[i] ^^ b[i]]
Affine16 == Lemma => LET n == Len(Msg) IN XorLimbs(XorLimbs(Crc16(Msg), Crc16(Mask(n))), Crc16(Zeros(n))) = Crc16(XorMsg(Msg, Mask(n)))
Affine64 == Lemma => LET n == Len(Msg) IN XorLimbs(XorLimbs(Crc64(Msg), Crc64(Mask(n))), Crc64(Zeros(n))) = Crc64(XorMsg(Msg, Mask(n)))
\* every single bit error is detected (checked on the enumerated strings)
Flip(m, i, k) == [m EXCEPT ![i] = m[i] ^^ (2^k)]
SingleBit == (Lemma /\ Enumerated) => \A i \in DOMAIN Msg : \A k \in 0..7 :
                 Crc16(Flip(Msg, i, k)) # Crc16(Msg) /\ Crc64(Flip(Msg, i, k)) # Crc64(Msg)

ASSUME JsonSerialize(IOEnv.TABLE_OUT, Table)
ASSUME PrintT(<<"CASES", NGrid, Len(FileCases)>>)
=============================================================================
