------------------------------ MODULE TimerTrace ------------------------------
(* Binding B for Timer.tla: a recorded execution of a real timer under a scripted clock is a   *)
(* sequence of events {"ev": name, args..., "res": result, "start", "stop", "duration"};        *)
(* the first event is the header {"ev": "Init", "clock": c, "duration": d}.                     *)
EXTENDS Timer, TraceBatch

VARIABLES tid, l
tvars == <<vars, tid, l>>

Ev == EvAt(tid, l)
Arg(r, f) == IF HasField(r, f) THEN r[f] ELSE NoArg

TraceInit == /\ tid \in 1..NTraces
             /\ l = 2
             /\ LET h == EvAt(tid, 1) IN
                /\ clock = h.clock /\ start = h.clock /\ latest = h.clock
                /\ duration = h.duration /\ stop = h.clock + h.duration
             /\ res = None

\* the logged result and projected state must be exactly what the specification's action produces
Logged == /\ res' = Ev.res
          /\ start' = Ev.start /\ stop' = Ev.stop /\ duration' = Ev.duration

Consume(name) == l <= TraceLen(tid) /\ Ev.ev = name /\ l' = l + 1 /\ UNCHANGED tid

TraceNext ==
    \/ Consume("Clock") /\ Clock(Ev.c)
    \/ Consume("Elapsed") /\ Elapsed /\ Logged
    \/ Consume("Remaining") /\ Remaining /\ Logged
    \/ Consume("Expired") /\ Expired /\ Logged
    \/ Consume("Repeat") /\ Repeat /\ Logged
    \/ Consume("Restart") /\ Restart(Arg(Ev, "s"), Arg(Ev, "d")) /\ Logged
    \/ Consume("Extend") /\ Extend(Arg(Ev, "x")) /\ Logged

TraceSpec == TraceInit /\ [][TraceNext]_tvars
TraceOK == TraceConstraint(tid, l)
=============================================================================
