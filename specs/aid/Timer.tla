-------------------------------- MODULE Timer --------------------------------
(* Timers of ioflo.aid.timing (property C42): Timer (wall clock), MonoTimer with and without   *)
(* retrograde compensation, StoreTimer (store stamp as clock).  Written from the class         *)
(* docstrings.  The clock is an environment variable that may step forward, stand still or     *)
(* jump back (action Clock); every public operation is one action whose result is `res`.       *)
(*   elapsed   = max(0, clock - start)        remaining = max(0, stop - clock)                 *)
(*   expired   = clock >= stop                restart(start?, duration?)                       *)
(*   repeat    = restart at the previous stop extend(x) keeps start, duration += x             *)
(* A monotonic timer looks at the clock whenever it is used; if the clock went back since the  *)
(* last look it either shifts start and stop back by the same amount (retro) or raises.        *)
EXTENDS Integers, Sequences, TLC

CONSTANTS Flavor,      \* "wall" | "store" | "mono" (retro compensation) | "strict" (raises)
          MaxClock,    \* the clock reads Base .. Base + MaxClock
          Durations    \* durations offered to restart / initial
NoArg == -1
Base == 10         \* clock readings are far from zero, as epoch times are (restart takes abs(start))
ClockRange == Base..(Base + MaxClock)
Extensions == {-1, 2}    \* values offered to extend (the cfg syntax has no negative numbers)

VARIABLES clock, start, stop, duration, latest, res
vars == <<clock, start, stop, duration, latest, res>>

Max(a, b) == IF a > b THEN a ELSE b
Abs(x) == IF x < 0 THEN -x ELSE x
IsMono == Flavor \in {"mono", "strict"}
None == [t |-> "none"]
Num(v) == [t |-> "num", v |-> v]
Bool(v) == [t |-> "bool", v |-> v]
Pair(a, b) == [t |-> "pair", v |-> <<a, b>>]
Retro == [t |-> "err", e |-> "TimerRetroError"]

Init == /\ clock \in Base..(Base + 2)
        /\ \E d \in Durations : duration = d /\ stop = clock + d
        /\ start = clock /\ latest = clock /\ res = None

\* environment: the clock reads anything (forward step, standstill, backward jump)
Clock(c) == clock' = c /\ UNCHANGED <<start, stop, duration, latest, res>>

\* what a monotonic timer does when it looks at the clock; shifted values of start/stop/latest
Back == IsMono /\ clock < latest
Raises == Flavor = "strict" /\ Back
Shift == IF Flavor = "mono" /\ Back THEN clock - latest ELSE 0
Start0 == start + Shift
Stop0 == stop + Shift
Now == IF IsMono THEN (IF Back THEN clock ELSE clock) ELSE clock
Look == IF IsMono THEN latest' = clock ELSE UNCHANGED latest

Fail == UNCHANGED <<clock, start, stop, duration, latest>> /\ res' = Retro

Elapsed == IF Raises THEN Fail ELSE
    /\ UNCHANGED <<clock, duration>> /\ Look
    /\ start' = Start0 /\ stop' = Stop0
    /\ res' = Num(Max(0, clock - Start0))
Remaining == IF Raises THEN Fail ELSE
    /\ UNCHANGED <<clock, duration>> /\ Look
    /\ start' = Start0 /\ stop' = Stop0
    /\ res' = Num(Max(0, Stop0 - clock))
Expired == IF Raises THEN Fail ELSE
    /\ UNCHANGED <<clock, duration>> /\ Look
    /\ start' = Start0 /\ stop' = Stop0
    /\ res' = Bool(clock >= Stop0)

\* restart(start = s or current time, duration = d or the current duration); returns (start, stop)
Restart(s, d) == IF Raises THEN Fail ELSE
    LET ns == IF s = NoArg THEN clock ELSE s
        nd == IF d = NoArg THEN duration ELSE d IN
    /\ UNCHANGED clock /\ Look
    /\ start' = ns /\ duration' = nd /\ stop' = ns + nd
    /\ res' = Pair(ns, ns + nd)
\* repeat(): restart exactly at the previous stop so that no time is lost
Repeat == IF Raises THEN Fail ELSE
    /\ UNCHANGED <<clock, duration>> /\ Look
    /\ start' = Stop0 /\ stop' = Stop0 + duration
    /\ res' = Pair(Stop0, Stop0 + duration)
\* extend(x) (x may be negative; missing = by the current duration): start kept
Extend(x) == IF Raises THEN Fail ELSE
    LET e == IF x = NoArg THEN duration ELSE x
        nd == Abs(duration + e) IN
    /\ UNCHANGED clock /\ Look
    /\ start' = Start0 /\ duration' = nd /\ stop' = Start0 + nd
    /\ res' = Pair(Start0, Start0 + nd)

Next == \/ \E c \in ClockRange : Clock(c)
        \/ Elapsed \/ Remaining \/ Expired \/ Repeat
        \/ \E s \in {NoArg, Base + 1, Base + 3}, d \in Durations \cup {NoArg} : Restart(s, d)
        \/ \E x \in Extensions \cup {NoArg} : Extend(x)
Spec == Init /\ [][Next]_vars

Bound == stop <= Base + 3 * MaxClock /\ duration <= 2 * MaxClock /\ start >= 0

(* ---- properties ---- *)
StopIsStartPlusDuration == stop = start + duration
\* results are never negative
NonNegative == res.t = "num" => res.v >= 0
\* the quantity latest - start (elapsed as seen by a monotonic timer) only changes by looking forward
MonoProgress == [][(Flavor = "mono" /\ start' # start /\ duration' = duration /\ stop' - start' = stop - start
                     /\ res'.t \in {"num", "bool"})
                   => (latest' - start') >= (latest - start)]_vars
\* the uncompensated monotonic timer raises exactly when the clock is behind the last look
StrictRaises == [][(Flavor = "strict" /\ clock' = clock /\ res' = Retro) => clock < latest]_vars
=============================================================================
