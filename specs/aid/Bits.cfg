SPECIFICATION Spec
CONSTANTS
  TMax = 10
  EMax = 7
  OMax = 5
  UAll = 6
  IMax = 5
  NMax = 300
  LMax = 1
  HMax = 3
  BMax = 8
  SMax = 8
  Shard = 0
  NShards = 1
INVARIANT RoundTrip
INVARIANT MaskIsMod
INVARIANT Positional
INVARIANT MirrorPack
INVARIANT SizePads
INVARIANT IntoFrame
INVARIANT Repack
INVARIANT BooleanRender
INVARIANT BytifyInverse
INVARIANT UnbytifyInverse
INVARIANT HexInverse
INVARIANT BinInverse
INVARIANT SignIsTwosComplement
INVARIANT WideBytify
CHECK_DEADLOCK FALSE
