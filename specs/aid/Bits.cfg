SPECIFICATION Spec
CONSTANTS
  TMax = 10
  EMax = 7
  OMax = 5
  UAll = 5
  PMax = 3
  VMax = 8
  IMax = 5
  NMax = 150
  LMax = 1
  HMax = 3
  BMax = 8
  SMax = 8
  Shard = 0
  NShards = 1
INVARIANT PackLaws
INVARIANT MaskIsMod
INVARIANT Positional
INVARIANT IntoFrame
INVARIANT UnpackLaws
INVARIANT BooleanRender
INVARIANT BytifyInverse
INVARIANT UnbytifyInverse
INVARIANT HexInverse
INVARIANT BinInverse
INVARIANT SignIsTwosComplement
INVARIANT WideBytify
CHECK_DEADLOCK FALSE
