------------------------------- MODULE ODict -------------------------------
(* Insertion-ordered dictionaries of ioflo.aid.odicting: odict and lodict.                     *)
(*                                                                                             *)
(* Written from the class docstrings and property C39: an odict is a dictionary whose keys     *)
(* keep the order in which they were first added (changing a value does not move the key);     *)
(* lodict additionally treats keys case-insensitively in EVERY mapping operation (all keys are *)
(* stored lower-cased).  One action per public operation; `res` is the operation's result      *)
(* (value, items, or the exception type raised) so that replay compares results too.           *)
EXTENDS Naturals, Sequences, FiniteSets, TLC

CONSTANTS Flavor,      \* "odict" | "lodict"
          Keys,        \* key universe (strings)
          Vals,        \* value universe
          MaxLen       \* bound on entries (state constraint of the model only)

VARIABLES keys,        \* sequence of distinct keys in insertion order
          val,         \* [key -> value] with DOMAIN = keys in `keys`
          res          \* result of the last operation

vars == <<keys, val, res>>

Lower(k) == IF k = "A" THEN "a" ELSE IF k = "B" THEN "b" ELSE k
N(k) == IF Flavor = "lodict" THEN Lower(k) ELSE k      \* key normalisation

Range(s) == {s[i] : i \in 1..Len(s)}
Has(k) == k \in Range(keys)
IndexOf(s, k) == CHOOSE i \in 1..Len(s) : s[i] = k
Remove(s, k) == SelectSeq(s, LAMBDA x : x # k)
InsertAt(s, i, x) == SubSeq(s, 1, i - 1) \o <<x>> \o SubSeq(s, i, Len(s))
Items == [i \in 1..Len(keys) |-> <<keys[i], val[keys[i]]>>]
Restrict(f, S) == [k \in S |-> f[k]]

None == [t |-> "none"]
Val(v) == [t |-> "val", v |-> v]
Err(e) == [t |-> "err", e |-> e]
Bool(b) == [t |-> "bool", v |-> b]
ItemsRes(it) == [t |-> "items", v |-> it]

TypeOK == /\ keys \in Seq(Keys)
          /\ \A i, j \in 1..Len(keys) : i # j => keys[i] # keys[j]
          /\ DOMAIN val = Range(keys)
          /\ \A k \in DOMAIN val : val[k] \in Vals
LowerOnly == Flavor = "lodict" => \A k \in Range(keys) : Lower(k) = k

Init == keys = <<>> /\ val = <<>> /\ res = None

\* d[k] = v : new keys go last, existing keys keep their place
Put(k, v) == /\ keys' = IF Has(k) THEN keys ELSE Append(keys, k)
             /\ val' = [x \in Range(keys) \cup {k} |-> IF x = k THEN v ELSE val[x]]

Set(k0, v) == LET k == N(k0) IN Put(k, v) /\ res' = None

Del(k0) == LET k == N(k0) IN
    IF Has(k) THEN /\ keys' = Remove(keys, k)
                   /\ val' = Restrict(val, Range(keys) \ {k})
                   /\ res' = None
    ELSE UNCHANGED <<keys, val>> /\ res' = Err("KeyError")

Get(k0) == LET k == N(k0) IN
    /\ UNCHANGED <<keys, val>>
    /\ res' = IF Has(k) THEN Val(val[k]) ELSE Err("KeyError")

GetDefault(k0, d) == LET k == N(k0) IN
    /\ UNCHANGED <<keys, val>>
    /\ res' = IF Has(k) THEN Val(val[k]) ELSE Val(d)

Contains(k0) == UNCHANGED <<keys, val>> /\ res' = Bool(Has(N(k0)))

\* pop(key) / pop(key, default)
Pop(k0) == LET k == N(k0) IN
    IF Has(k) THEN /\ keys' = Remove(keys, k)
                   /\ val' = Restrict(val, Range(keys) \ {k})
                   /\ res' = Val(val[k])
    ELSE UNCHANGED <<keys, val>> /\ res' = Err("KeyError")

PopDefault(k0, d) == LET k == N(k0) IN
    IF Has(k) THEN /\ keys' = Remove(keys, k)
                   /\ val' = Restrict(val, Range(keys) \ {k})
                   /\ res' = Val(val[k])
    ELSE UNCHANGED <<keys, val>> /\ res' = Val(d)

\* popitem(): remove and return the last item
PopItem ==
    IF keys = <<>> THEN UNCHANGED <<keys, val>> /\ res' = Err("KeyError")
    ELSE LET k == keys[Len(keys)] IN
         /\ keys' = SubSeq(keys, 1, Len(keys) - 1)
         /\ val' = Restrict(val, Range(keys) \ {k})
         /\ res' = ItemsRes(<< <<k, val[k]>> >>)

\* insert(index, key, val): only if key absent; python list.insert index semantics (0-based, clamped)
Insert(i, k0, v) == LET k == N(k0) IN
    IF Has(k) THEN UNCHANGED <<keys, val>> /\ res' = Err("KeyError")
    ELSE LET pos == IF i > Len(keys) THEN Len(keys) + 1 ELSE i + 1 IN
         /\ keys' = InsertAt(keys, pos, k)
         /\ val' = [x \in Range(keys) \cup {k} |-> IF x = k THEN v ELSE val[x]]
         /\ res' = None

\* append(key, item): D[key] = item, KeyError if present
AppendNew(k0, v) == LET k == N(k0) IN
    IF Has(k) THEN UNCHANGED <<keys, val>> /\ res' = Err("KeyError")
    ELSE Put(k, v) /\ res' = None

\* create([(k, v)]) : only if key not already existent (never overwrites)
Create(k0, v) == LET k == N(k0) IN
    /\ res' = None
    /\ IF Has(k) THEN UNCHANGED <<keys, val>> ELSE Put(k, v)

\* create([(k1, v1), (k2, v2)]) : the pairs are taken in order, each only if its key is not existent by then
\* (so of two pairs whose keys coincide - for lodict: after lower-casing - the first one wins)
Create2(k1, v1, k2, v2) == LET a == N(k1) b == N(k2) IN
    LET keys1 == IF Has(a) THEN keys ELSE Append(keys, a)
        keys2 == IF b \in Range(keys1) THEN keys1 ELSE Append(keys1, b) IN
    /\ keys' = keys2
    /\ val' = [x \in Range(keys2) |-> IF x \in Range(keys) THEN val[x] ELSE IF x = a THEN v1 ELSE v2]
    /\ res' = None

\* reorder(other) with other a PLAIN odict([(k, v)]) (keys as written): a lodict still treats the key case-insensitively
ReorderPlain(k0, v) == LET k == N(k0) IN
    /\ keys' = Append(Remove(keys, k), k)
    /\ val' = [x \in Range(keys) \cup {k} |-> IF x = k THEN v ELSE val[x]]
    /\ res' = None
\* reorder(self): "updating with self makes no changes"
ReorderSelf == UNCHANGED <<keys, val>> /\ res' = None

SetDefault(k0, d) == LET k == N(k0) IN
    IF Has(k) THEN UNCHANGED <<keys, val>> /\ res' = Val(val[k])
    ELSE Put(k, d) /\ res' = Val(d)

\* update([(k1, v1), (k2, v2)]) : in order
Update2(k1, v1, k2, v2) == LET a == N(k1) b == N(k2) IN
    LET keys1 == IF Has(a) THEN keys ELSE Append(keys, a)
        keys2 == IF b \in Range(keys1) THEN keys1 ELSE Append(keys1, b) IN
    /\ keys' = keys2
    /\ val' = [x \in Range(keys2) |-> IF x = b THEN v2 ELSE IF x = a THEN v1 ELSE val[x]]
    /\ res' = None

\* reorder(other) with other = odict([(k, v)]): update from other and move its keys to the end
Reorder(k0, v) == LET k == N(k0) IN
    /\ keys' = Append(Remove(keys, k), k)
    /\ val' = [x \in Range(keys) \cup {k} |-> IF x = k THEN v ELSE val[x]]
    /\ res' = None

\* sift(fields): shallow copy restricted to fields, in that order; KeyError if a field is missing
Sift2(k1, k2) == LET a == N(k1) b == N(k2) IN
    /\ UNCHANGED <<keys, val>>
    /\ res' = IF Has(a) /\ Has(b)
              THEN ItemsRes(IF a = b THEN << <<a, val[a]>> >> ELSE << <<a, val[a]>>, <<b, val[b]>> >>)
              ELSE Err("KeyError")

\* copy / sift() / pickle round trip / items: all observe the items in order, unchanged
Copy == UNCHANGED <<keys, val>> /\ res' = ItemsRes(Items)
\* pickle round trip with protocol p, copy.copy, copy.deepcopy: an equal, independent dictionary of the same class
Pickle(p) == UNCHANGED <<keys, val>> /\ res' = ItemsRes(Items)
CopyModule(deep) == UNCHANGED <<keys, val>> /\ res' = ItemsRes(Items)
Clear == keys' = <<>> /\ val' = <<>> /\ res' = None

Next ==
    \/ \E k \in Keys, v \in Vals : Set(k, v) \/ Insert(0, k, v) \/ Insert(1, k, v) \/ Insert(5, k, v)
                                   \/ AppendNew(k, v) \/ Create(k, v) \/ SetDefault(k, v)
                                   \/ PopDefault(k, v) \/ GetDefault(k, v) \/ Reorder(k, v)
    \/ \E k \in Keys : Del(k) \/ Get(k) \/ Contains(k) \/ Pop(k)
    \/ \E k1, k2 \in Keys : Sift2(k1, k2)
    \/ \E k1, k2 \in Keys, v1, v2 \in Vals : Update2(k1, v1, k2, v2) \/ Create2(k1, v1, k2, v2)
    \/ PopItem \/ Copy \/ Clear \/ ReorderSelf
    \/ \E k \in Keys, v \in Vals : ReorderPlain(k, v)
    \/ \E p \in {0, 1, 2, 5} : Pickle(p)
    \/ \E b \in BOOLEAN : CopyModule(b)

Spec == Init /\ [][Next]_vars

Bound == Len(keys) <= MaxLen

(* ---- properties ---- *)
\* a key never changes its relative position unless it is removed or explicitly reordered/inserted
OrderStable == [][\A a, b \in Range(keys) \cap Range(keys') :
                    (\E k \in Keys, v \in Vals : Reorder(k, v)) \/
                    ((IndexOf(keys, a) < IndexOf(keys, b)) <=> (IndexOf(keys', a) < IndexOf(keys', b)))]_vars
\* new keys are placed after every key already present, except by insert
NewKeysLast == [][\A k \in Range(keys') \ Range(keys), o \in Range(keys) \cap Range(keys') :
                    (\E i \in {0, 1, 5}, k0 \in Keys, v \in Vals : Insert(i, k0, v))
                    \/ IndexOf(keys', o) < IndexOf(keys', k)]_vars
=============================================================================
