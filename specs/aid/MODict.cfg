SPECIFICATION Spec
CONSTANTS
  Keys = {"a", "b"}
  Vals = {0, 1}
  MaxLen = 2
  MaxVals = 2
CONSTRAINT Bound
INVARIANT TypeOK
PROPERTY KeepsEveryValue
