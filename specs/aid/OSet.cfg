SPECIFICATION Spec
CONSTANTS
  Elems = {"a", "b", "c"}
  MaxLen = 3
CONSTRAINT Bound
INVARIANT TypeOK
PROPERTY EntryOrderKept
