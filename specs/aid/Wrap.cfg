SPECIFICATION Spec
CONSTANTS
  AMax = 30
  WMax = 8
INVARIANT Wrap1Unique
INVARIANT Wrap2Exists
INVARIANT Wrap2SignInvariant
INVARIANT Idempotent
INVARIANT TurnInvariant
INVARIANT Agree
CHECK_DEADLOCK FALSE
