-------------------------------- MODULE Wrap --------------------------------
(* Angle wrapping (ioflo.aid.navigating.wrap1 / wrap2 / delta), specified BY CONTRACT, not by  *)
(* the modulo recipe of the implementation (property C43):                                     *)
(*   wrap1(a, w): the representative of a modulo the full turn w in the half-open range        *)
(*                between 0 (included) and w (excluded), for w of either sign; w = 0: a.       *)
(*   wrap2(a, w): a representative of a modulo the full turn 2w in the CLOSED range            *)
(*                [-|w|, +|w|] (two answers are admissible exactly on the boundary); w = 0: a. *)
(*   delta(d, a, w) = wrap2(d - a, w).                                                          *)
(* Angles are integers in grid units (the harness scales: unit = 1/2, 1/4 ... so that dyadic    *)
(* rationals and their float images are exact).                                                *)
EXTENDS Integers, FiniteSets, Sequences, SequencesExt, TLC, Json, IOUtils

CONSTANTS AMax, WMax

Abs(x) == IF x < 0 THEN -x ELSE x
Divides(m, x) == IF m = 0 THEN x = 0 ELSE x % Abs(m) = 0

InRange1(r, w) == IF w > 0 THEN 0 <= r /\ r < w ELSE w < r /\ r <= 0
Cand(w) == (-Abs(w))..Abs(w)

\* set of admissible results
W1(a, w) == IF w = 0 THEN {a} ELSE {r \in Cand(w) : InRange1(r, w) /\ Divides(w, a - r)}
W2(a, w) == IF w = 0 THEN {a} ELSE {r \in Cand(w) : Divides(2 * w, a - r)}
D(d, a, w) == W2(d - a, w)

Cases == {<<a, w>> : a \in (-AMax)..AMax, w \in (-WMax)..WMax}
VARIABLE c
Init == c \in Cases
Next == UNCHANGED c
Spec == Init /\ [][Next]_c

\* the contract determines wrap1 uniquely and wrap2 up to the boundary choice
Wrap1Unique == Cardinality(W1(c[1], c[2])) = 1
Wrap2Exists == LET s == W2(c[1], c[2]) IN
    /\ Cardinality(s) \in {1, 2}
    /\ Cardinality(s) = 2 <=> (c[2] # 0 /\ s = {-Abs(c[2]), Abs(c[2])})
Wrap2SignInvariant == W2(c[1], c[2]) = W2(c[1], -c[2])
\* wrapping is idempotent and insensitive to adding whole turns
Idempotent == \A r \in W1(c[1], c[2]) : W1(r, c[2]) = {r}
TurnInvariant == /\ W1(c[1] + c[2], c[2]) = W1(c[1], c[2])
                 /\ W2(c[1] + 2 * c[2], c[2]) = W2(c[1], c[2])
\* the two wraps agree on their common range
Agree == (c[2] > 0 /\ 0 <= c[1] /\ c[1] < c[2]) => (c[1] \in W1(c[1], 2 * c[2]) /\ c[1] \in W2(c[1], c[2]))

Table == LET s == SetToSeq(Cases) IN
    [i \in 1..Len(s) |-> [a |-> s[i][1], w |-> s[i][2],
                          w1 |-> SetToSeq(W1(s[i][1], s[i][2])), w2 |-> SetToSeq(W2(s[i][1], s[i][2]))]]
\* the table is written once at start-up for the harness to replay against the implementation (binding C)
ASSUME JsonSerialize(IOEnv.TABLE_OUT, Table)
=============================================================================
