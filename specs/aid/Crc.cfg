SPECIFICATION Spec
CONSTANTS
  MaxLen = 1
  Shard = 0
  NShards = 1
  DivMax = 16
  LemmaStep = 1
INVARIANT DivIsTab16
INVARIANT DivIsTab64
INVARIANT InRange
INVARIANT Codeword16
INVARIANT Codeword64
INVARIANT Affine16
INVARIANT Affine64
INVARIANT SingleBit
CHECK_DEADLOCK FALSE
