-------------------------------- MODULE OSet --------------------------------
(* Ordered set (ioflo.aid.osetting.oset): a set that remembers the order of entry, with the    *)
(* usual set algebra (results ordered as the documentation's recipe: left operand's order,     *)
(* then new elements of the right operand in its order) and pop from either end.               *)
EXTENDS Naturals, Sequences, FiniteSets, TLC

CONSTANTS Elems, MaxLen
VARIABLES s, res
vars == <<s, res>>

Range(q) == {q[i] : i \in 1..Len(q)}
Remove(q, k) == SelectSeq(q, LAMBDA x : x # k)
NoDup(q) == \A i, j \in 1..Len(q) : i # j => q[i] # q[j]
Others == {q \in UNION {[1..n -> Elems] : n \in 0..2} : NoDup(q)}   \* right operands

None == [t |-> "none"]
Val(v) == [t |-> "val", v |-> v]
Err(e) == [t |-> "err", e |-> e]
Bool(b) == [t |-> "bool", v |-> b]

TypeOK == s \in Seq(Elems) /\ NoDup(s)
Init == s = <<>> /\ res = None

Add(e) == s' = (IF e \in Range(s) THEN s ELSE Append(s, e)) /\ res' = None
Discard(e) == s' = Remove(s, e) /\ res' = None
RemoveOp(e) == IF e \in Range(s) THEN s' = Remove(s, e) /\ res' = None ELSE UNCHANGED s /\ res' = Err("KeyError")
Contains(e) == UNCHANGED s /\ res' = Bool(e \in Range(s))
Pop(last) == IF s = <<>> THEN UNCHANGED s /\ res' = Err("KeyError")
             ELSE LET e == IF last THEN s[Len(s)] ELSE s[1] IN s' = Remove(s, e) /\ res' = Val(e)
LenOp == UNCHANGED s /\ res' = Val(Len(s))
Reversed == UNCHANGED s /\ res' = Val([i \in 1..Len(s) |-> s[Len(s) + 1 - i]])
Clear == s' = <<>> /\ res' = None

Union(o) == s \o SelectSeq(o, LAMBDA x : x \notin Range(s))
Inter(o) == SelectSeq(s, LAMBDA x : x \in Range(o))
Diff(o) == SelectSeq(s, LAMBDA x : x \notin Range(o))
\* binary operators return a new ordered set and leave the operands alone
Or(o) == UNCHANGED s /\ res' = Val(Union(o))
\* the order of an intersection is not documented: only its membership is specified
And(o) == UNCHANGED s /\ res' = Val(Range(Inter(o)))
Sub(o) == UNCHANGED s /\ res' = Val(Diff(o))
Xor(o) == UNCHANGED s /\ res' = Val(Range(Diff(o)) \cup {x \in Range(o) : x \notin Range(s)})  \* membership only
\* in-place forms
IOr(o) == s' = Union(o) /\ res' = None
\* equality: with another oset order matters, with a plain set only membership
EqOSet(o) == UNCHANGED s /\ res' = Bool(s = o)
EqSet(o) == UNCHANGED s /\ res' = Bool(Range(s) = Range(o))

Next == \/ \E e \in Elems : Add(e) \/ Discard(e) \/ RemoveOp(e) \/ Contains(e)
        \/ \E b \in BOOLEAN : Pop(b)
        \/ \E o \in Others : Or(o) \/ And(o) \/ Sub(o) \/ Xor(o) \/ IOr(o) \/ EqOSet(o) \/ EqSet(o)
        \/ LenOp \/ Reversed \/ Clear
Spec == Init /\ [][Next]_vars
Bound == Len(s) <= MaxLen
EntryOrderKept == [][\A a, b \in Range(s) \cap Range(s') :
     LET ix(q, x) == CHOOSE i \in 1..Len(q) : q[i] = x IN (ix(s, a) < ix(s, b)) <=> (ix(s', a) < ix(s', b))]_vars
=============================================================================
