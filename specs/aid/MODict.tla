------------------------------- MODULE MODict -------------------------------
(* Multiple ordered dictionary (ioflo.aid.odicting.modict), from its docstrings and C39:       *)
(* every key keeps the list of all values set for it; getting returns the newest; insertion    *)
(* order of keys is remembered; special methods reach / replace / pop the whole list.          *)
EXTENDS Naturals, Sequences, FiniteSets, TLC

CONSTANTS Keys, Vals, MaxLen, MaxVals

VARIABLES keys,     \* sequence of distinct keys in insertion order
          vals,     \* [key -> non-empty sequence of values], oldest first
          res
vars == <<keys, vals, res>>

Range(s) == {s[i] : i \in 1..Len(s)}
Has(k) == k \in Range(keys)
Remove(s, k) == SelectSeq(s, LAMBDA x : x # k)
Restrict(f, S) == [k \in S |-> f[k]]
Last(s) == s[Len(s)]

None == [t |-> "none"]
Val(v) == [t |-> "val", v |-> v]
Err(e) == [t |-> "err", e |-> e]
Bool(b) == [t |-> "bool", v |-> b]
ItemsRes(it) == [t |-> "items", v |-> it]

Items == [i \in 1..Len(keys) |-> <<keys[i], Last(vals[keys[i]])>>]
ListItems == [i \in 1..Len(keys) |-> <<keys[i], vals[keys[i]]>>]
\* every (key, value) pair, keys in insertion order, values oldest first
RECURSIVE AllFrom(_)
AllFrom(i) == IF i > Len(keys) THEN <<>>
              ELSE [j \in 1..Len(vals[keys[i]]) |-> <<keys[i], vals[keys[i]][j]>>] \o AllFrom(i + 1)
AllItems == AllFrom(1)

TypeOK == /\ keys \in Seq(Keys)
          /\ \A i, j \in 1..Len(keys) : i # j => keys[i] # keys[j]
          /\ DOMAIN vals = Range(keys)
          /\ \A k \in DOMAIN vals : vals[k] \in Seq(Vals) /\ vals[k] # <<>>

Init == keys = <<>> /\ vals = <<>> /\ res = None

Add(k, v) == /\ keys' = IF Has(k) THEN keys ELSE Append(keys, k)
             /\ vals' = [x \in Range(keys) \cup {k} |->
                            IF x = k THEN (IF Has(k) THEN Append(vals[k], v) ELSE <<v>>) ELSE vals[x]]

\* d[k] = v and d.append(k, v) / d.add(k, v): append to the key's list
Set(k, v) == Add(k, v) /\ res' = None
AppendVal(k, v) == Add(k, v) /\ res' = None

Get(k) == UNCHANGED <<keys, vals>> /\ res' = IF Has(k) THEN Val(Last(vals[k])) ELSE Err("KeyError")
\* get(key, default, index): element `index` (python index: -1 newest, 0 oldest) or default
GetIndex(k, d, first) == UNCHANGED <<keys, vals>> /\
    res' = IF Has(k) THEN Val(IF first THEN vals[k][1] ELSE Last(vals[k])) ELSE Val(d)
GetList(k) == UNCHANGED <<keys, vals>> /\ res' = Val(IF Has(k) THEN vals[k] ELSE <<>>)
Contains(k) == UNCHANGED <<keys, vals>> /\ res' = Bool(Has(k))

Replace(k, v) == /\ keys' = IF Has(k) THEN keys ELSE Append(keys, k)
                 /\ vals' = [x \in Range(keys) \cup {k} |-> IF x = k THEN <<v>> ELSE vals[x]]
                 /\ res' = None

SetDefault(k, d) == IF Has(k) THEN UNCHANGED <<keys, vals>> /\ res' = Val(Last(vals[k]))
                    ELSE Add(k, d) /\ res' = Val(d)

Drop(k) == /\ keys' = Remove(keys, k)
           /\ vals' = Restrict(vals, Range(keys) \ {k})

Del(k) == IF Has(k) THEN Drop(k) /\ res' = None ELSE UNCHANGED <<keys, vals>> /\ res' = Err("KeyError")
\* pop(key): remove the key, return the newest value; pop(key, default)
Pop(k) == IF Has(k) THEN Drop(k) /\ res' = Val(Last(vals[k])) ELSE UNCHANGED <<keys, vals>> /\ res' = Err("KeyError")
PopDefault(k, d) == IF Has(k) THEN Drop(k) /\ res' = Val(Last(vals[k])) ELSE UNCHANGED <<keys, vals>> /\ res' = Val(d)
PopList(k) == IF Has(k) THEN Drop(k) /\ res' = Val(vals[k]) ELSE UNCHANGED <<keys, vals>> /\ res' = Err("KeyError")

\* popitem(last): LIFO (last=True) or FIFO (last=False) over keys; returns (key, newest value)
PopItem(last) ==
    IF keys = <<>> THEN UNCHANGED <<keys, vals>> /\ res' = Err("KeyError")
    ELSE LET k == IF last THEN Last(keys) ELSE keys[1] IN
         Drop(k) /\ res' = ItemsRes(<< <<k, Last(vals[k])>> >>)
PopListItem(last) ==
    IF keys = <<>> THEN UNCHANGED <<keys, vals>> /\ res' = Err("KeyError")
    ELSE LET k == IF last THEN Last(keys) ELSE keys[1] IN
         Drop(k) /\ res' = ItemsRes(<< <<k, vals[k]>> >>)

\* update from a sequence of pairs / from a plain dict with one item: appends
UpdatePairs(k, v) == Add(k, v) /\ res' = None
UpdateDict(k, v) == Add(k, v) /\ res' = None

\* observers
ItemsOp == UNCHANGED <<keys, vals>> /\ res' = ItemsRes(Items)
ListItemsOp == UNCHANGED <<keys, vals>> /\ res' = ItemsRes(ListItems)
AllItemsOp == UNCHANGED <<keys, vals>> /\ res' = ItemsRes(AllItems)
\* copy(): an equal, independent modict holding every value of every key
Copy == UNCHANGED <<keys, vals>> /\ res' = ItemsRes(ListItems)
\* pickle round trip (protocol p) and copy.copy / copy.deepcopy: like copy(), "modict keeps every value per key"
Pickle(p) == UNCHANGED <<keys, vals>> /\ res' = ItemsRes(ListItems)
CopyModule(deep) == UNCHANGED <<keys, vals>> /\ res' = ItemsRes(ListItems)
Clear == keys' = <<>> /\ vals' = <<>> /\ res' = None

Next ==
    \/ \E k \in Keys, v \in Vals : Set(k, v) \/ AppendVal(k, v) \/ Replace(k, v) \/ SetDefault(k, v)
                                   \/ PopDefault(k, v) \/ UpdatePairs(k, v) \/ UpdateDict(k, v)
                                   \/ GetIndex(k, v, TRUE) \/ GetIndex(k, v, FALSE)
    \/ \E k \in Keys : Get(k) \/ GetList(k) \/ Contains(k) \/ Del(k) \/ Pop(k) \/ PopList(k)
    \/ \E b \in BOOLEAN : PopItem(b) \/ PopListItem(b)
    \/ ItemsOp \/ ListItemsOp \/ AllItemsOp \/ Copy \/ Clear
    \/ \E p \in {0, 2, 5} : Pickle(p)
    \/ \E deep \in BOOLEAN : CopyModule(deep)

Spec == Init /\ [][Next]_vars
Bound == Len(keys) <= MaxLen /\ \A k \in DOMAIN vals : Len(vals[k]) <= MaxVals

\* nothing but replace / removal ever discards a value: lists only grow otherwise
KeepsEveryValue == [][\A k \in Range(keys) \cap Range(keys') :
                        (\E v \in Vals : Replace(k, v)) \/
                        (Len(vals'[k]) >= Len(vals[k]) /\ SubSeq(vals'[k], 1, Len(vals[k])) = vals[k])]_vars
=============================================================================
