SPECIFICATION Spec
CONSTANTS
  Flavor = "lodict"
  Keys = {"a", "A", "b"}
  Vals = {0, 1}
  MaxLen = 3
CONSTRAINT Bound
INVARIANT TypeOK
INVARIANT LowerOnly
PROPERTY OrderStable
PROPERTY NewKeysLast
