------------------------------ MODULE Polygon ------------------------------
(* Point-in-polygon predicates of ioflo.aid.vectoring (property C44), specified by EXACT integer *)
(* geometry and not by the winding loop of the implementation:                                  *)
(*   a polygon is the closed chain of its vertex sequence; it is Simple when its vertices are   *)
(*   distinct, neighbouring sides meet only in their common vertex and other sides are disjoint;*)
(*   p is OnBoundary when it lies on a side (collinear and within the side's box);              *)
(*   p is StrictIn when it is not on the boundary and a ray from p in a direction that provably *)
(*   passes through no lattice point of the figure crosses the boundary an odd number of times  *)
(*   (crossing number, signs of cross products only).                                           *)
(* The documented predicates (docstrings of inside/insideOnly/outside/outsideOnly/sideOnly/wind)*)
(*   inside(p, vs, side)   = side on the boundary, else strictly inside                         *)
(*   insideOnly            = inside with side = False                                            *)
(*   outside(p, vs, side)  = side on the boundary, else not strictly inside                     *)
(*   outsideOnly           = outside with side = False                                           *)
(*   sideOnly              = on a side or vertex                                                 *)
(*   wind                  = 0 outside and on the boundary; positive inside a counter clockwise *)
(*                           polygon, negative inside a clockwise one (a simple closed curve     *)
(*                           winds exactly once: +1 / -1)                                        *)
(* TLC checks lemmas that tie these definitions to independent facts (Pick's theorem, a second  *)
(* ray, reversal, translation and scaling) on every case and writes the table of expected       *)
(* answers that the harness replays against the implementation (binding C).  A state of the     *)
(* model is one table row: a polygon, the points examined and the answers for each of them.     *)
EXTENDS Integers, FiniteSets, Sequences, SequencesExt, TLC, Json, IOUtils

CONSTANTS Source,          \* "grid": all simple polygons on the grid; "file": cases read from IOEnv.CASES_IN
          N,               \* grid coordinates 0..N-1 (grid source)
          MinV, MaxV,      \* number of vertices (grid source)
          NShards,         \* the cases are dealt into this many shards (see Emit)
          Only,            \* the shards this run works on (a subset of 0..NShards-1: sampling)
          Deep             \* TRUE: also check the (costly) reversal / rotation / similarity lemmas

VARIABLE row              \* one table row (declared first so that no operator parameter can shadow it)

(* ---------------------------------------------------------------- vectors *)
Sub(a, b) == <<a[1] - b[1], a[2] - b[2]>>
Cross(u, v) == u[1] * v[2] - u[2] * v[1]
Sgn(x) == IF x > 0 THEN 1 ELSE IF x < 0 THEN -1 ELSE 0
Abs(x) == IF x < 0 THEN -x ELSE x
\* +1: c lies to the left of the directed line a->b, -1: to the right, 0: on it
Orient(a, b, c) == Sgn((b[1] - a[1]) * (c[2] - a[2]) - (b[2] - a[2]) * (c[1] - a[1]))
Within(x, a, b) == (a <= x /\ x <= b) \/ (b <= x /\ x <= a)
InBox(p, a, b) == Within(p[1], a[1], b[1]) /\ Within(p[2], a[2], b[2])
OnSeg(p, a, b) == Orient(a, b, p) = 0 /\ InBox(p, a, b)

Nxt(i, n) == IF i = n THEN 1 ELSE i + 1
SetMax(S) == CHOOSE x \in S : \A y \in S : y <= x
SetMin(S) == CHOOSE x \in S : \A y \in S : x <= y

(* ---------------------------------------------------------------- simple polygons *)
\* closed segments ab and cd have a common point: a proper crossing, or an end of one on the other
SegsMeet(a, b, c, d) ==
    LET o1 == Orient(a, b, c)  o2 == Orient(a, b, d)
        o3 == Orient(c, d, a)  o4 == Orient(c, d, b) IN
    \/ (o1 * o2 < 0 /\ o3 * o4 < 0)
    \/ (o1 = 0 /\ InBox(c, a, b)) \/ (o2 = 0 /\ InBox(d, a, b))
    \/ (o3 = 0 /\ InBox(a, c, d)) \/ (o4 = 0 /\ InBox(b, c, d))

Simple(vs) == LET n == Len(vs) IN
    /\ n >= 3
    /\ \A i, j \in 1..n : i < j => vs[i] # vs[j]
    /\ \A i, j \in 1..n : i < j =>
          LET a == vs[i]  b == vs[Nxt(i, n)]  c == vs[j]  d == vs[Nxt(j, n)] IN
          IF j = i + 1 THEN ~OnSeg(a, c, d) /\ ~OnSeg(d, a, b)              \* neighbours sharing b = c
          ELSE IF i = 1 /\ j = n THEN ~OnSeg(b, c, d) /\ ~OnSeg(c, a, b)    \* neighbours sharing d = a
          ELSE ~SegsMeet(a, b, c, d)

\* twice the signed area (shoelace): positive = counter clockwise
RECURSIVE Shoelace(_, _)
Shoelace(vs, i) == IF i = 0 THEN 0 ELSE Cross(vs[i], vs[Nxt(i, Len(vs))]) + Shoelace(vs, i - 1)
Area2(vs) == Shoelace(vs, Len(vs))

(* ---------------------------------------------------------------- point location *)
OnSides(p, vs) == {i \in 1..Len(vs) : OnSeg(p, vs[i], vs[Nxt(i, Len(vs))])}
OnBoundary(p, vs) == \E i \in 1..Len(vs) : OnSeg(p, vs[i], vs[Nxt(i, Len(vs))])

\* extents of a figure (vertices vs and points ps)
ExtX(vs, ps) == LET xs == {vs[i][1] : i \in 1..Len(vs)} \cup {ps[i][1] : i \in 1..Len(ps)} IN SetMax(xs) - SetMin(xs)
ExtY(vs, ps) == LET ys == {vs[i][2] : i \in 1..Len(vs)} \cup {ps[i][2] : i \in 1..Len(ps)} IN SetMax(ys) - SetMin(ys)
\* a ray p + t*(M, 1) with M larger than the x-extent of the figure meets a lattice point only at integer t # 0,
\* i.e. at least M columns away from p: it passes through no vertex (neither does its backward extension)
Ray1(vs, ps) == <<ExtX(vs, ps) + 1, 1>>
\* a second, unrelated direction (down, slightly left); same argument on the rows
Ray2(vs, ps) == <<-1, -(ExtY(vs, ps) + 1)>>

SideOfRay(p, d, a) == Sgn(Cross(d, Sub(a, p)))
\* a side a->b is crossed by the ray from p along d iff its ends are strictly on different sides of the line
\* and the meeting point has a positive ray parameter  t = Cross(a - p, b - a) / Cross(d, b - a)
Crossed(p, d, a, b) ==
    LET sa == SideOfRay(p, d, a)  sb == SideOfRay(p, d, b) IN
    /\ sa * sb < 0
    /\ Sgn(Cross(Sub(a, p), Sub(b, a))) * (sb - sa) > 0
Crossings(p, vs, d) == Cardinality({i \in 1..Len(vs) : Crossed(p, d, vs[i], vs[Nxt(i, Len(vs))])})

\* strictly inside, by the crossing number along ray d (d must miss every vertex)
StrictIn(p, vs, d) == ~OnBoundary(p, vs) /\ Crossings(p, vs, d) % 2 = 1

(* ---------------------------------------------------------------- the documented predicates *)
\* given the two geometric facts about p: on = on the boundary, sin = strictly inside
Inside(on, sin, side) == IF on THEN side ELSE sin
InsideOnly(on, sin) == Inside(on, sin, FALSE)
Outside(on, sin, side) == IF on THEN side ELSE ~sin
OutsideOnly(on, sin) == Outside(on, sin, FALSE)
SideOnly(on, sin) == on
Wind(on, sin, area2) == IF on \/ ~sin THEN 0 ELSE IF area2 > 0 THEN 1 ELSE -1

\* the answers for polygon vs and the sequence of points ps: one table row
\* (TLCEval makes TLC compute each sequence once instead of re-evaluating it at every use)
Each(F(_), n) == TLCEval([i \in 1..n |-> F(i)])
Row(vs, ps) ==
    LET n == Len(ps)
        d == Ray1(vs, ps)
        a2 == Area2(vs)
        on == Each(LAMBDA i : OnBoundary(ps[i], vs), n)
        sin == Each(LAMBDA i : StrictIn(ps[i], vs, d), n) IN
    [vs |-> vs, ps |-> ps, on |-> on, sin |-> sin,
     sides |-> Each(LAMBDA i : SetToSeq(OnSides(ps[i], vs)), n),
     insideT |-> Each(LAMBDA i : Inside(on[i], sin[i], TRUE), n),
     insideF |-> Each(LAMBDA i : Inside(on[i], sin[i], FALSE), n),
     insideOnly |-> Each(LAMBDA i : InsideOnly(on[i], sin[i]), n),
     outsideT |-> Each(LAMBDA i : Outside(on[i], sin[i], TRUE), n),
     outsideF |-> Each(LAMBDA i : Outside(on[i], sin[i], FALSE), n),
     outsideOnly |-> Each(LAMBDA i : OutsideOnly(on[i], sin[i]), n),
     sideOnly |-> Each(LAMBDA i : SideOnly(on[i], sin[i]), n),
     wind |-> Each(LAMBDA i : Wind(on[i], sin[i], a2), n)]

(* ---------------------------------------------------------------- cases *)
\* The cases are dealt into shards.  The model starts in one marker state per shard; the single step Emit
\* computes the rows of that shard, writes them as JSON for the harness (binding C) and moves to each of them,
\* so that TLC's workers share the work and every row is a state on which the lemmas are checked.
GridSeq == [k \in 1..(N * N) |-> <<(k - 1) \div N, (k - 1) % N>>]
GridSet == {GridSeq[k] : k \in 1..(N * N)}
\* grid source: shard (k, n) has the polygons of n vertices whose first two vertices are the q-th pair of grid
\* points with q % NShards = k
FirstTwo(k) == {<<GridSeq[q[1]], GridSeq[q[2]]>> : q \in {q \in (1..(N * N)) \X (1..(N * N)) : ((q[1] - 1) * N * N + q[2]) % NShards = k}}
GridPolys(k, n) == {vs \in {f \o r : f \in FirstTwo(k), r \in [1..(n - 2) -> GridSet]} : Simple(vs)}

\* file source: a sequence of [vs |-> <<<<x, y>>, ...>>, ps |-> <<<<x, y>>, ...>>]; figures that are not simple are
\* dropped; shard (k, 0) has the cases i with i % NShards = k
FileCases == JsonDeserialize(IOEnv.CASES_IN)

ShardRows(k, n) == IF Source = "grid" THEN {Row(v, GridSeq) : v \in GridPolys(k, n)}
                   ELSE {Row(FileCases[i].vs, FileCases[i].ps) : i \in {i \in 1..Len(FileCases) : i % NShards = k /\ Simple(FileCases[i].vs)}}

IsRow == "vs" \in DOMAIN row
Markers == {[shard |-> k, n |-> n] : k \in Only, n \in IF Source = "grid" THEN MinV..MaxV ELSE {0}}
Init == row \in Markers
Emit == /\ ~IsRow
        /\ LET rs == ShardRows(row.shard, row.n) IN
           /\ JsonSerialize(IOEnv.TABLE_OUT \o "-" \o ToString(row.shard) \o "-" \o ToString(row.n) \o ".json", SetToSeq(rs))
           /\ row' \in rs
Next == Emit
Spec == Init /\ [][Next]_row

Idx == 1..Len(row.ps)

(* ---------------------------------------------------------------- lemmas checked on every row *)
HasArea == IsRow => Area2(row.vs) # 0
IsSimple == IsRow => Simple(row.vs)
\* the chosen rays graze no vertex when p is off the boundary, and the two rays agree (Jordan curve theorem)
RaysMiss == IsRow => \A i \in Idx : ~row.on[i] => \A j \in 1..Len(row.vs) :
    SideOfRay(row.ps[i], Ray1(row.vs, row.ps), row.vs[j]) # 0 /\ SideOfRay(row.ps[i], Ray2(row.vs, row.ps), row.vs[j]) # 0
RaysAgree == IsRow => LET d == Ray2(row.vs, row.ps) IN \A i \in Idx : row.sin[i] = StrictIn(row.ps[i], row.vs, d)
\* Pick's theorem: twice the area = 2 * interior lattice points + boundary lattice points - 2,
\* checked on the rows that examine every lattice point of the polygon's bounding box
MinX(vs) == SetMin({vs[i][1] : i \in 1..Len(vs)})    MaxX(vs) == SetMax({vs[i][1] : i \in 1..Len(vs)})
MinY(vs) == SetMin({vs[i][2] : i \in 1..Len(vs)})    MaxY(vs) == SetMax({vs[i][2] : i \in 1..Len(vs)})
InBBox(p, vs) == MinX(vs) <= p[1] /\ p[1] <= MaxX(vs) /\ MinY(vs) <= p[2] /\ p[2] <= MaxY(vs)
CoversBox == LET in == {row.ps[i] : i \in {i \in Idx : InBBox(row.ps[i], row.vs)}} IN
    Cardinality(in) = (MaxX(row.vs) - MinX(row.vs) + 1) * (MaxY(row.vs) - MinY(row.vs) + 1)
Pick == (IsRow /\ CoversBox) =>
    Abs(Area2(row.vs)) = 2 * Cardinality({row.ps[i] : i \in {i \in Idx : row.sin[i]}})
                           + Cardinality({row.ps[i] : i \in {i \in Idx : row.on[i]}}) - 2
\* exactly one of strictly inside / strictly outside / on the boundary; the side flag only matters on the boundary
Trichotomy == IsRow => \A i \in Idx : Cardinality({k \in 1..3 : <<row.insideOnly[i], row.outsideOnly[i], row.sideOnly[i]>>[k]}) = 1
Duality == IsRow => \A i \in Idx :
    /\ row.insideT[i] = ~row.outsideF[i] /\ row.insideF[i] = ~row.outsideT[i]
    /\ row.insideT[i] = (row.insideOnly[i] \/ row.sideOnly[i])
    /\ row.outsideT[i] = (row.outsideOnly[i] \/ row.sideOnly[i])
    /\ row.sideOnly[i] = (row.sides[i] # <<>>)
WindZero == IsRow => \A i \in Idx : (row.wind[i] = 0) = (row.outsideOnly[i] \/ row.sideOnly[i])
\* walking the polygon the other way, or starting at another vertex, changes nothing but the sign of wind
Rot(vs) == Tail(vs) \o <<Head(vs)>>
Reversal == (IsRow /\ Deep) => LET r == Row(Reverse(row.vs), row.ps)  t == Row(Rot(row.vs), row.ps) IN
    /\ Simple(Reverse(row.vs)) /\ Simple(Rot(row.vs))
    /\ r.on = row.on /\ r.sin = row.sin /\ t.on = row.on /\ t.sin = row.sin /\ t.wind = row.wind
    /\ \A i \in Idx : r.wind[i] = -row.wind[i]
\* similarity: translating by (-3, -2) and doubling changes nothing (licence for the harness to replay
\* the table on shifted / scaled / float coordinates)
Sim(p) == <<2 * p[1] - 3, 2 * p[2] - 2>>
Similarity == (IsRow /\ Deep) => LET w == [i \in 1..Len(row.vs) |-> Sim(row.vs[i])]
                          r == Row(w, [i \in Idx |-> Sim(row.ps[i])]) IN
    /\ Simple(w)
    /\ r.on = row.on /\ r.sin = row.sin /\ r.wind = row.wind /\ r.sides = row.sides

=============================================================================
