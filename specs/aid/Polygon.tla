------------------------------ MODULE Polygon ------------------------------
(* Point-in-polygon predicates of ioflo.aid.vectoring (property C44), specified by EXACT integer *)
(* geometry and not by the winding loop of the implementation:                                  *)
(*   a polygon is the closed chain of its vertex sequence; it is Simple when its vertices are   *)
(*   distinct, neighbouring sides meet only in their common vertex and other sides are disjoint;*)
(*   p is OnBoundary when it lies on a side (collinear and within the side's box);              *)
(*   p is StrictIn when it is not on the boundary and a ray from p in a direction that provably *)
(*   passes through no lattice point of the figure crosses the boundary an odd number of times  *)
(*   (crossing number, signs of cross products only).                                           *)
(* The documented predicates (docstrings of inside/insideOnly/outside/outsideOnly/sideOnly/wind)*)
(*   inside(p, vs, side)   = side on the boundary, else strictly inside                         *)
(*   insideOnly            = inside with side = False                                            *)
(*   outside(p, vs, side)  = side on the boundary, else not strictly inside                     *)
(*   outsideOnly           = outside with side = False                                           *)
(*   sideOnly              = on a side or vertex                                                 *)
(*   wind                  = 0 outside and on the boundary; positive inside a counter clockwise *)
(*                           polygon, negative inside a clockwise one (a simple closed curve     *)
(*                           winds exactly once: +1 / -1)                                        *)
(* TLC checks lemmas that tie these definitions to independent facts (Pick's theorem, a second  *)
(* ray, reversal, translation and scaling) on every case and writes the table of expected       *)
(* answers that the harness replays against the implementation (binding C).                     *)
EXTENDS Integers, FiniteSets, Sequences, SequencesExt, TLC, Json, IOUtils

CONSTANTS Source,          \* "grid": all simple polygons on the grid; "file": cases read from IOEnv.CASES_IN
          N,               \* grid coordinates 0..N-1 (grid source)
          MinV, MaxV,      \* number of vertices (grid source)
          Shard, NShards   \* grid source: polygons whose first vertex has index k with k % NShards = Shard

(* ---------------------------------------------------------------- vectors *)
Sub(a, b) == <<a[1] - b[1], a[2] - b[2]>>
Cross(u, v) == u[1] * v[2] - u[2] * v[1]
Sgn(x) == IF x > 0 THEN 1 ELSE IF x < 0 THEN -1 ELSE 0
Orient(a, b, c) == Sgn(Cross(Sub(b, a), Sub(c, a)))      \* +1: c left of a->b, -1 right, 0 collinear
Within(x, a, b) == (a <= x /\ x <= b) \/ (b <= x /\ x <= a)
OnSeg(p, a, b) == Orient(a, b, p) = 0 /\ Within(p[1], a[1], b[1]) /\ Within(p[2], a[2], b[2])

Nxt(i, n) == IF i = n THEN 1 ELSE i + 1
SetMax(S) == CHOOSE x \in S : \A y \in S : y <= x
SetMin(S) == CHOOSE x \in S : \A y \in S : x <= y
RECURSIVE SumTo(_, _)
SumTo(f, n) == IF n = 0 THEN 0 ELSE f[n] + SumTo(f, n - 1)

(* ---------------------------------------------------------------- simple polygons *)
SegsMeet(a, b, c, d) ==
    LET o1 == Orient(a, b, c)  o2 == Orient(a, b, d)
        o3 == Orient(c, d, a)  o4 == Orient(c, d, b) IN
    \/ (o1 * o2 < 0 /\ o3 * o4 < 0)
    \/ OnSeg(c, a, b) \/ OnSeg(d, a, b) \/ OnSeg(a, c, d) \/ OnSeg(b, c, d)

Simple(vs) == LET n == Len(vs) IN
    /\ n >= 3
    /\ \A i, j \in 1..n : i < j => vs[i] # vs[j]
    /\ \A i, j \in 1..n : i < j =>
          LET a == vs[i]  b == vs[Nxt(i, n)]  c == vs[j]  d == vs[Nxt(j, n)] IN
          IF j = i + 1 THEN ~OnSeg(a, c, d) /\ ~OnSeg(d, a, b)              \* neighbours sharing b = c
          ELSE IF i = 1 /\ j = n THEN ~OnSeg(b, c, d) /\ ~OnSeg(c, a, b)    \* neighbours sharing d = a
          ELSE ~SegsMeet(a, b, c, d)

\* twice the signed area (shoelace): positive = counter clockwise
Area2(vs) == LET n == Len(vs) IN SumTo([i \in 1..n |-> Cross(vs[i], vs[Nxt(i, n)])], n)

(* ---------------------------------------------------------------- point location *)
OnSides(p, vs) == {i \in 1..Len(vs) : OnSeg(p, vs[i], vs[Nxt(i, Len(vs))])}
OnBoundary(p, vs) == OnSides(p, vs) # {}

Xs(p, vs) == {vs[i][1] : i \in 1..Len(vs)} \cup {p[1]}
Ys(p, vs) == {vs[i][2] : i \in 1..Len(vs)} \cup {p[2]}
\* a ray p + t*(M, 1) with M larger than the x-extent of the figure meets a lattice point only at integer t,
\* i.e. at least M columns away from p: it passes through no vertex (neither does its backward extension)
Ray1(p, vs) == <<SetMax(Xs(p, vs)) - SetMin(Xs(p, vs)) + 1, 1>>
\* a second, unrelated direction (down, slightly left), same argument on the rows
Ray2(p, vs) == <<-1, -(SetMax(Ys(p, vs)) - SetMin(Ys(p, vs)) + 1)>>

SideOfRay(p, d, a) == Sgn(Cross(d, Sub(a, p)))
\* side i is crossed by the ray iff its ends are strictly on different sides of the line and the
\* meeting point has positive ray parameter  t = Cross(a - p, b - a) / Cross(d, b - a)
Crossed(p, d, a, b) ==
    LET sa == SideOfRay(p, d, a)  sb == SideOfRay(p, d, b) IN
    /\ sa * sb < 0
    /\ Sgn(Cross(Sub(a, p), Sub(b, a))) * (sb - sa) > 0
Crossings(p, vs, d) == Cardinality({i \in 1..Len(vs) : Crossed(p, d, vs[i], vs[Nxt(i, Len(vs))])})

StrictIn(p, vs) == ~OnBoundary(p, vs) /\ Crossings(p, vs, Ray1(p, vs)) % 2 = 1

(* ---------------------------------------------------------------- the documented predicates *)
Inside(p, vs, side) == IF OnBoundary(p, vs) THEN side ELSE StrictIn(p, vs)
InsideOnly(p, vs) == Inside(p, vs, FALSE)
Outside(p, vs, side) == IF OnBoundary(p, vs) THEN side ELSE ~StrictIn(p, vs)
OutsideOnly(p, vs) == Outside(p, vs, FALSE)
SideOnly(p, vs) == OnBoundary(p, vs)
Wind(p, vs) == IF StrictIn(p, vs) THEN (IF Area2(vs) > 0 THEN 1 ELSE -1) ELSE 0

(* ---------------------------------------------------------------- cases *)
GridSeq == [k \in 1..(N * N) |-> <<(k - 1) \div N, (k - 1) % N>>]
GridSet == {GridSeq[k] : k \in 1..(N * N)}
FirstPts == {GridSeq[k] : k \in {k \in 1..(N * N) : k % NShards = Shard}}
GridPolys == {vs \in UNION {{<<a>> \o r : a \in FirstPts, r \in [1..(n - 1) -> GridSet]} : n \in MinV..MaxV} : Simple(vs)}

FileCases == JsonDeserialize(IOEnv.CASES_IN)      \* sequence of [vs |-> <<<<x, y>>, ...>>, ps |-> <<<<x, y>>, ...>>]

Cases == IF Source = "grid" THEN {[vs |-> v, ps |-> GridSeq] : v \in GridPolys}
         ELSE {FileCases[i] : i \in {i \in 1..Len(FileCases) : Simple(FileCases[i].vs)}}

VARIABLE c
Init == c \in Cases
Next == UNCHANGED c
Spec == Init /\ [][Next]_c

Pts(cs) == {cs.ps[i] : i \in 1..Len(cs.ps)}

(* ---------------------------------------------------------------- lemmas checked on every case *)
HasArea == Area2(c.vs) # 0
\* the chosen rays never graze a vertex when p is off the boundary, and any two of them agree (Jordan)
RaysMiss == \A p \in Pts(c) : ~OnBoundary(p, c.vs) =>
    \A i \in 1..Len(c.vs) : SideOfRay(p, Ray1(p, c.vs), c.vs[i]) # 0 /\ SideOfRay(p, Ray2(p, c.vs), c.vs[i]) # 0
RaysAgree == \A p \in Pts(c) : ~OnBoundary(p, c.vs) =>
    Crossings(p, c.vs, Ray1(p, c.vs)) % 2 = Crossings(p, c.vs, Ray2(p, c.vs)) % 2
\* Pick's theorem: twice the area = 2 * interior lattice points + boundary lattice points - 2
Box(vs) == {<<x, y>> : x \in SetMin({vs[i][1] : i \in 1..Len(vs)})..SetMax({vs[i][1] : i \in 1..Len(vs)}),
                       y \in SetMin({vs[i][2] : i \in 1..Len(vs)})..SetMax({vs[i][2] : i \in 1..Len(vs)})}
Abs(x) == IF x < 0 THEN -x ELSE x
Pick == LET b == Box(c.vs) IN
    Abs(Area2(c.vs)) = 2 * Cardinality({p \in b : StrictIn(p, c.vs)}) + Cardinality({p \in b : OnBoundary(p, c.vs)}) - 2
\* exactly one of strictly inside / strictly outside / on the boundary; the side flag only matters on the boundary
Trichotomy == \A p \in Pts(c) :
    Cardinality({k \in 1..3 : <<InsideOnly(p, c.vs), OutsideOnly(p, c.vs), SideOnly(p, c.vs)>>[k]}) = 1
Duality == \A p \in Pts(c) : \A side \in BOOLEAN :
    /\ Inside(p, c.vs, side) = ~Outside(p, c.vs, ~side)
    /\ Inside(p, c.vs, TRUE) = (InsideOnly(p, c.vs) \/ SideOnly(p, c.vs))
    /\ Outside(p, c.vs, TRUE) = (OutsideOnly(p, c.vs) \/ SideOnly(p, c.vs))
WindZero == \A p \in Pts(c) : (Wind(p, c.vs) = 0) = (OutsideOnly(p, c.vs) \/ SideOnly(p, c.vs))
\* walking the polygon the other way, or starting at another vertex, changes nothing but the sign of wind
Rot(vs) == Tail(vs) \o <<Head(vs)>>
Reversal == LET r == Reverse(c.vs) IN
    /\ Simple(r) /\ Simple(Rot(c.vs))
    /\ \A p \in Pts(c) : /\ OnBoundary(p, r) = OnBoundary(p, c.vs) /\ StrictIn(p, r) = StrictIn(p, c.vs)
                         /\ Wind(p, r) = -Wind(p, c.vs) /\ Wind(p, Rot(c.vs)) = Wind(p, c.vs)
\* similarity: translating by (-3, -2) and doubling changes nothing (licence for the harness to replay
\* the table on shifted / scaled / float coordinates)
Sim(p) == <<2 * p[1] - 3, 2 * p[2] - 2>>
Similarity == LET w == [i \in 1..Len(c.vs) |-> Sim(c.vs[i])] IN
    /\ Simple(w)
    /\ \A p \in Pts(c) : /\ OnSides(Sim(p), w) = OnSides(p, c.vs) /\ StrictIn(Sim(p), w) = StrictIn(p, c.vs)
                         /\ Wind(Sim(p), w) = Wind(p, c.vs)

(* ---------------------------------------------------------------- the table (binding C) *)
Row(cs) == LET f(Op(_)) == [i \in 1..Len(cs.ps) |-> Op(cs.ps[i])]
               InT(p) == Inside(p, cs.vs, TRUE)      InF(p) == Inside(p, cs.vs, FALSE)
               OutT(p) == Outside(p, cs.vs, TRUE)    OutF(p) == Outside(p, cs.vs, FALSE)
               InO(p) == InsideOnly(p, cs.vs)        OutO(p) == OutsideOnly(p, cs.vs)
               SdO(p) == SideOnly(p, cs.vs)          Wd(p) == Wind(p, cs.vs)
               Sds(p) == SetToSeq(OnSides(p, cs.vs)) IN
    [vs |-> cs.vs, ps |-> cs.ps, insideT |-> f(InT), insideF |-> f(InF), outsideT |-> f(OutT), outsideF |-> f(OutF),
     insideOnly |-> f(InO), outsideOnly |-> f(OutO), sideOnly |-> f(SdO), wind |-> f(Wd), sides |-> f(Sds)]
Table == LET s == SetToSeq(Cases) IN [i \in 1..Len(s) |-> Row(s[i])]
ASSUME JsonSerialize(IOEnv.TABLE_OUT, Table)
=============================================================================
