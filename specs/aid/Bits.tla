--------------------------------- MODULE Bits ---------------------------------
(* Bit field, byte, hex and binary string codecs of ioflo.aid.byting (property C40), written    *)
(* from the docstrings and the property statement, NOT from the shift-and-mask loops:           *)
(*                                                                                              *)
(*  * a number is a big endian BIT STRING (sequence of 0/1, any length); a field of width w     *)
(*    holds the w low order bits of its value (w = 1: the truth value of the number);           *)
(*  * packify   = the field bit strings written one after the other, first field in the high    *)
(*    order bits, right padded with zero bits to size bytes (default: the least number of       *)
(*    bytes that hold the format), cut into bytes; reverse = the bytes in opposite order;       *)
(*  * unpackify = the inverse reading of the first size bytes (after the optional reversal),    *)
(*    the bits not covered by the format being returned as one more field;                      *)
(*  * packifyInto = packify written into a buffer at an offset, the buffer growing when         *)
(*    needed, every other byte untouched, the size returned;                                    *)
(*  * bytify / unbytify = base 256 digits, most significant first (reverse: least significant   *)
(*    first), at least size digits; negative or strict: exactly size digits of n modulo         *)
(*    256^size (two's complement); hexify / unhexify = two hexadecimal digits per byte, a       *)
(*    leading 0 when the digit count is odd; binize / unbinize = base 2 digits; signExtend =    *)
(*    the two's complement reading of an n bit number.                                          *)
(*                                                                                              *)
(* Arithmetic definitions (value mod 2^w, positional sums) are stated as lemmas and checked     *)
(* against the bit string definitions on every enumerated case.                                 *)
(*                                                                                              *)
(* Cases are records tagged by k; the enumerated grids are built from the constants below       *)
(* (this TLC process takes the cases of its shard), wider cases come from the harness as JSON   *)
(* (CASES_FILE; numbers as bit strings because TLC integers have 32 bits).  Each case is an     *)
(* initial state, the invariants are the algebra of the codecs, and the table of                *)
(* (input -> output) rows is written to TABLE_OUT for the harness to replay on the real code.   *)
EXTENDS Integers, Sequences, SequencesExt, FiniteSets, TLC, Json, IOUtils

CONSTANTS TMax,     \* pack: every format (composition into widths >= 1) of every total width 0..TMax, pattern values
          EMax,     \* pack: ... and every tuple of in-range field values when the total width is <= EMax
          OMax,     \* pack: ... and the same tuples pushed out of range (to be masked) when the total width is <= OMax
          UAll,     \* unpack: formats of total width <= UAll (at most 8) with every byte value
          PMax,     \* unpack: formats of total width <= 12 otherwise with every string over the first PMax probe bytes
          VMax,     \* unpack: formats of total width <= VMax with explicit sizes, longer buffers, both orders
          IMax,     \* packInto: formats of total width <= IMax against every buffer / offset / size / order
          NMax,     \* bytify: every n in -NMax..NMax (and boundary values around 2^8, 2^16, 2^24)
          LMax,     \* unbytify / hexify: every byte string of length <= LMax
          HMax,     \* unhexify: every string of length <= HMax over HexAlpha
          BMax,     \* binize / unbinize: every size <= BMax, every n < 2^size
          SMax,     \* signExtend: every n <= SMax, every x < 2^n
          Shard, NShards

None == -1          \* "size not given"
Gap == -1           \* a byte the documentation does not determine (buffer grown beyond its old end, before the offset)
Max2(a, b) == IF a >= b THEN a ELSE b
Byte == 0..255

\* ------------------------------------------------------------------ bit strings
Bit == {0, 1}
Zeros(k) == [i \in 1..k |-> 0]
BitsOfDef(x, w) == [i \in 1..w |-> (x \div 2^(w - i)) % 2]       \* big endian binary digits of x >= 0, w <= 31
ValOfDef(bs) == FoldLeft(LAMBDA a, b : 2 * a + b, 0, bs)          \* the number written by a short bit string
\* TLC evaluates the two definitions above slowly, so octets go through tables computed once from those definitions
\* (SubSeq and @@ make TLC store the tables as explicit values)
OctetTable == SubSeq([k \in 1..256 |-> SubSeq(BitsOfDef(k - 1, 8), 1, 8)], 1, 256)
OctetBitsOf(b) == OctetTable[b + 1]                                \* = BitsOfDef(b, 8)
OctetValue == [o \in [1..8 -> Bit] |-> ValOfDef(o)] @@ <<>>        \* OctetValue[o] = ValOfDef(o)
LeftPad(bs) == Zeros((8 - (Len(bs) % 8)) % 8) \o bs                \* to a whole number of octets
Octets(bits) == [k \in 1..(Len(bits) \div 8) |-> OctetValue[SubSeq(bits, 8 * k - 7, 8 * k)]]
OctetBits(by) == FoldLeft(LAMBDA a, b : a \o OctetBitsOf(b), <<>>, by)
\* numbers below 2^24 as 24 bits, numbers below 2^31 as 32 bits; short bit strings back to numbers
BitsOf(x, w) == LET n == (w + 7) \div 8
                    all == OctetBits([i \in 1..n |-> (x \div 256^(n - i)) % 256])
                IN  SubSeq(all, 8 * n - w + 1, 8 * n)
ValOf(bs) == FoldLeft(LAMBDA a, o : 256 * a + o, 0, Octets(LeftPad(bs)))
NatBits(x) == BitsOf(x, 26)                                        \* enumerated numbers are below 2^26
\* the tables and the fast forms agree with the definitions
ASSUME \A b \in 0..255 : OctetBitsOf(b) = BitsOfDef(b, 8) /\ OctetValue[OctetBitsOf(b)] = b /\ ValOfDef(OctetBitsOf(b)) = b
ASSUME \A x \in (0..600) \cup {65535, 65536, 16777215, 16777216, 33554431, 1073741823} : \A w \in {19, 26, 30} :
          x < 2^w => BitsOf(x, w) = BitsOfDef(x, w) /\ ValOf(BitsOf(x, w)) = x /\ ValOfDef(BitsOf(x, w)) = x
Low(bs, w) == LET n == Len(bs) IN IF n >= w THEN SubSeq(bs, n - w + 1, n) ELSE Zeros(w - n) \o bs
Truth(bs) == IF \E i \in DOMAIN bs : bs[i] = 1 THEN 1 ELSE 0
IsZero(bs) == Truth(bs) = 0
Strip(bs) == IF IsZero(bs) THEN <<>> ELSE LET j == CHOOSE i \in DOMAIN bs : bs[i] = 1 /\ \A h \in 1..(i - 1) : bs[h] = 0
                                          IN SubSeq(bs, j, Len(bs))
Inv(bs) == [i \in DOMAIN bs |-> 1 - bs[i]]
\* bs + 1 modulo 2^Len(bs)
Inc(bs) == IF \A i \in DOMAIN bs : bs[i] = 1 THEN Zeros(Len(bs))
           ELSE LET j == CHOOSE i \in DOMAIN bs : bs[i] = 0 /\ \A h \in (i + 1)..Len(bs) : bs[h] = 1
                IN [i \in DOMAIN bs |-> IF i < j THEN bs[i] ELSE IF i = j THEN 1 ELSE 0]
\* (- magnitude) modulo 2^w, as w bits: two's complement
TwoC(mag, w) == Inc(Inv(Low(mag, w)))

Mirror(by, rev) == IF rev THEN Reverse(by) ELSE by

\* ------------------------------------------------------------------ bit field formats
Total(fmt) == FoldLeft(LAMBDA a, w : a + w, 0, fmt)
Need(fmt) == (Total(fmt) + 7) \div 8                               \* least number of bytes that hold the format
SizeOf(fmt, size) == IF size = None THEN Need(fmt) ELSE size
Fits(fmt, size) == Total(fmt) <= 8 * SizeOf(fmt, size)              \* otherwise the functions raise
\* (unpackify also raises when the format has more bits than the buffer: Total(fmt) > 8 * Len(b))
FieldBits(w, bs) == IF w = 1 THEN <<Truth(bs)>> ELSE Low(bs, w)
Masked(fmt, bvals) == [i \in DOMAIN fmt |-> FieldBits(fmt[i], bvals[i])]
Flatten(seqs) == FoldLeft(LAMBDA a, x : a \o x, <<>>, seqs)
Image(fmt, bvals, nb) == LET body == Flatten(Masked(fmt, bvals)) IN body \o Zeros(8 * nb - Len(body))

Pack(fmt, bvals, size, rev) == Mirror(Octets(Image(fmt, bvals, SizeOf(fmt, size))), rev)

Unpack(fmt, by, size, rev) ==
    LET nb == SizeOf(fmt, size)
        bits == OctetBits(SubSeq(Mirror(by, rev), 1, nb))
        t == Total(fmt)
        start(i) == Total(SubSeq(fmt, 1, i - 1))
        fields == [i \in DOMAIN fmt |-> SubSeq(bits, start(i) + 1, start(i) + fmt[i])]
    IN  IF t < 8 * nb THEN fields \o <<SubSeq(bits, t + 1, 8 * nb)>> ELSE fields

\* the format extended by its padding field, so that it covers size bytes exactly
Padded(fmt, size) == LET r == 8 * SizeOf(fmt, size) - Total(fmt) IN IF r > 0 THEN fmt \o <<r>> ELSE fmt

PackInto(buf, fmt, bvals, size, off, rev) ==
    LET p == Pack(fmt, bvals, size, rev)
        n == Len(p)
    IN  [ret |-> n,
         out |-> [j \in 1..Max2(Len(buf), off + n) |-> IF j > off /\ j <= off + n THEN p[j - off]
                                                       ELSE IF j <= Len(buf) THEN buf[j] ELSE Gap]]

Ints(fields) == [i \in DOMAIN fields |-> ValOf(fields[i])]
\* booleans for the one bit fields of the format when requested (the padding field is not a field of the format)
Render(fmt, ints, boolean) == [i \in DOMAIN ints |-> IF boolean /\ i <= Len(fmt) /\ fmt[i] = 1 THEN ints[i] = 1 ELSE ints[i]]

\* ------------------------------------------------------------------ integers <-> bytes (small numbers, arithmetic)
RECURSIVE MinBytes(_)
MinBytes(n) == IF n = 0 THEN 0 ELSE 1 + MinBytes(n \div 256)
Digits(n, len) == [i \in 1..len |-> (n \div 256^(len - i)) % 256]
Bytify(n, size, rev, strict) ==
    LET m == IF n < 0 \/ strict THEN n % (256^size) ELSE n
    IN  Mirror(Digits(m, Max2(size, MinBytes(m))), rev)
Unbytify(by, rev) == FoldLeft(LAMBDA a, x : 256 * a + x, 0, Mirror(by, rev))

\* the same on bit strings of any length (magnitude + sign)
BytifyB(mag, neg, size, rev, strict) ==
    LET bits == IF neg THEN TwoC(mag, 8 * size) ELSE IF strict THEN Low(mag, 8 * size) ELSE Strip(mag)
        len == IF neg \/ strict THEN size ELSE Max2(size, (Len(bits) + 7) \div 8)
    IN  Mirror(Octets(Low(bits, 8 * len)), rev)
UnbytifyB(by, rev) == OctetBits(Mirror(by, rev))

\* two's complement reading of an n bit string: sign and magnitude
SignExtendB(xb) == IF xb[1] = 0 THEN [neg |-> FALSE, mag |-> xb] ELSE [neg |-> TRUE, mag |-> TwoC(xb, Len(xb))]
SignExtend(x, n) == IF x < 2^(n - 1) THEN x ELSE x - 2^n

\* ------------------------------------------------------------------ text forms
HexLow == <<"0", "1", "2", "3", "4", "5", "6", "7", "8", "9", "a", "b", "c", "d", "e", "f">>
HexUp  == <<"0", "1", "2", "3", "4", "5", "6", "7", "8", "9", "A", "B", "C", "D", "E", "F">>
DigitVal(ch) == IF \E i \in 1..16 : HexLow[i] = ch THEN (CHOOSE i \in 1..16 : HexLow[i] = ch) - 1
                ELSE (CHOOSE i \in 11..16 : HexUp[i] = ch) - 1
IsHex(ch) == \E i \in 1..16 : HexLow[i] = ch \/ HexUp[i] = ch
Even(h) == IF Len(h) % 2 = 1 THEN <<"0">> \o h ELSE h
LowerHex(h) == [i \in DOMAIN h |-> HexLow[DigitVal(h[i]) + 1]]
Hexify(by) == Flatten([k \in DOMAIN by |-> <<HexLow[by[k] \div 16 + 1], HexLow[(by[k] % 16) + 1]>>])
Unhexify(h) == LET e == Even(h) IN [k \in 1..(Len(e) \div 2) |-> 16 * DigitVal(e[2 * k - 1]) + DigitVal(e[2 * k])]
Binize(n, size) == [i \in 1..size |-> IF (n \div 2^(size - i)) % 2 = 1 THEN "1" ELSE "0"]
Unbinize(u) == FoldLeft(LAMBDA a, ch : 2 * a + (IF ch = "1" THEN 1 ELSE 0), 0, u)
BinizeB(bits, size) == LET l == Low(bits, size) IN [i \in 1..size |-> IF l[i] = 1 THEN "1" ELSE "0"]
UnbinizeB(u) == [i \in DOMAIN u |-> IF u[i] = "1" THEN 1 ELSE 0]

\* ------------------------------------------------------------------ enumerated cases
\* A format is a composition of its total width t into field widths >= 1.  Compositions of t correspond to the subsets
\* of the cut positions 1..t-1, i.e. to the codes 0..2^(t-1)-1 (bit j-1 set: a field ends after bit j); enumerating by
\* code lets each shard build only its own formats.  Comp is the plain recursive definition, compared below.
RECURSIVE Comp(_)
Comp(t) == IF t = 0 THEN {<<>>} ELSE UNION {{<<w>> \o r : r \in Comp(t - w)} : w \in 1..t}
Fmt(t, code) == IF t = 0 THEN <<>>
                ELSE LET cs == <<0>> \o SetToSortSeq({j \in 1..(t - 1) : (code \div 2^(j - 1)) % 2 = 1}, <) \o <<t>>
                     IN  [i \in 1..(Len(cs) - 1) |-> cs[i + 1] - cs[i]]
Codes(t) == IF t = 0 THEN {0} ELSE 0..(2^(t - 1) - 1)
ASSUME \A t \in 0..9 : {Fmt(t, code) : code \in Codes(t)} = Comp(t) /\ Cardinality(Comp(t)) = Cardinality(Codes(t))
MineN(x) == x % NShards = Shard
Formats(lo, hi) == UNION {{Fmt(t, code) : code \in {x \in Codes(t) : MineN(x + 3 * t)}} : t \in lo..hi}

RECURSIVE InRange(_)
InRange(f) == IF f = <<>> THEN {<<>>} ELSE {<<x>> \o r : x \in 0..(2^f[1] - 1), r \in InRange(Tail(f))}
\* pushed out of range: whole multiples of 2^w added to wide fields, one bit fields scaled (zero stays zero)
Pushed(f, v) == [i \in DOMAIN f |-> IF f[i] = 1 THEN v[i] * (1 + (i % 3)) ELSE v[i] + 2^f[i] * (1 + (i % 2))]
\* pattern values for every format: all zero, all ones, top bit only, 1, just out of range (2^w: masked to 0, a one bit
\* field stays true), all ones with an extra high bit, top bit with an extra high bit, alternating ones / zero.
\* Formats wider than 12 bits get a subset (there are 61440 of them).
Patterns(f) == LET n == Len(f) IN
    IF Total(f) <= 12 THEN
    {[i \in 1..n |-> 0], [i \in 1..n |-> 2^f[i] - 1], [i \in 1..n |-> 2^(f[i] - 1)], [i \in 1..n |-> 1],
     [i \in 1..n |-> 2^f[i]], [i \in 1..n |-> 2^(f[i] + 1) - 1], [i \in 1..n |-> 2^f[i] + 2^(f[i] - 1)],
     [i \in 1..n |-> IF i % 2 = 1 THEN 2^f[i] - 1 ELSE 0], [i \in 1..n |-> IF i % 2 = 0 THEN 2^f[i] - 1 ELSE 0]}
    ELSE
    {[i \in 1..n |-> IF i % 2 = 1 THEN 2^(f[i] + 1) - 1 ELSE 2^f[i]], [i \in 1..n |-> IF i % 2 = 0 THEN 2^f[i] - 1 ELSE 2^(f[i] - 1) + 1]}
PackVals(f) == Patterns(f) \cup (IF Total(f) <= EMax THEN InRange(f) ELSE {})
                           \cup (IF Total(f) <= OMax THEN {Pushed(f, v) : v \in InRange(f)} ELSE {})
PackCases == UNION {{[k |-> "pack", fmt |-> f, vals |-> v] : v \in PackVals(f)} : f \in Formats(0, TMax)}

ProbeSeq == <<0, 255, 165, 90, 129, 60>>          \* 00 FF A5 5A 81 3C
ProbeBytes == {ProbeSeq[i] : i \in 1..6}
ByteStrings(n, S) == [1..n -> S]
ProbeString(n) == [i \in 1..n |-> (151 * i + 76) % 256]
UnpackBufs(f) == IF Total(f) <= UAll /\ Need(f) <= 1 THEN ByteStrings(Need(f), Byte)
                 ELSE IF Need(f) <= 2 /\ Total(f) <= 12 THEN ByteStrings(Need(f), {ProbeSeq[i] : i \in 1..PMax})
                 ELSE {[i \in 1..Need(f) |-> x[(i % 2) + 1]] : x \in {<<165, 219>>}}
UnpackCases ==
    UNION {{[k |-> "unpack", fmt |-> f, b |-> b, size |-> None, rev |-> FALSE] : b \in UnpackBufs(f)} : f \in Formats(0, TMax)}
    \cup  \* explicit size (exact, larger), buffer longer than size (the rest is not read), reversed order
    UNION {{[k |-> "unpack", fmt |-> f, b |-> ProbeString(SizeOf(f, s) + extra), size |-> s, rev |-> r] :
               s \in {None, Need(f), Need(f) + 1}, extra \in {0, 2}, r \in BOOLEAN}
           : f \in Formats(0, VMax)}

IntoBufs == {<<>>, <<165>>, <<165, 90, 195>>, <<17, 34, 51, 68, 85, 102>>}
IntoCases == UNION {{[k |-> "into", fmt |-> f, vals |-> v, size |-> s, rev |-> r, buf |-> bf, off |-> o] :
                        v \in {[i \in DOMAIN f |-> 2^f[i] - 1], [i \in DOMAIN f |-> IF i % 2 = 1 THEN 2^f[i] + 1 ELSE 2^(f[i] - 1)]},
                        s \in {None, Need(f) + 1}, r \in BOOLEAN, bf \in IntoBufs, o \in 0..4}
                    : f \in Formats(0, IMax)}

\* documented errors: a size too small for the format (all three functions raise); a buffer with fewer bits than the
\* format (unpackify raises).  blen is the length of the buffer handed to unpackify.
ErrCases == UNION {{[k |-> "err", fmt |-> f, size |-> Need(f) - 1, blen |-> Need(f) + 1]}
                   \cup {[k |-> "err", fmt |-> f, size |-> None, blen |-> n] : n \in {0, Need(f) - 1, Need(f)}}
                   : f \in Formats(1, IF TMax < 12 THEN TMax ELSE 12)}

Edge == {255, 256, 257, 65535, 65536, 65537, 16777215, 16777216, 16777217, 33554431}
BytifyNs == {n \in ((-NMax)..NMax) \cup Edge \cup {-e : e \in Edge} : MineN(n)}
BytifyCases == {[k |-> "bytify", n |-> n, size |-> s, rev |-> r, strict |-> st] : n \in BytifyNs, s \in 0..3, r \in BOOLEAN, st \in BOOLEAN}

MineS(s) == IF Len(s) = 0 THEN Shard = 0 ELSE MineN(s[1])
Strings == {s \in UNION {ByteStrings(n, Byte) : n \in 0..LMax} : MineS(s)}
           \cup {s \in ByteStrings(3, ProbeBytes) : MineS(s)}
UnbytifyCases == {[k |-> "unbytify", b |-> s, rev |-> r] : s \in Strings, r \in BOOLEAN}
HexifyCases == {[k |-> "hexify", b |-> s] : s \in Strings}

HexAlpha == {"0", "1", "7", "9", "a", "c", "f", "A", "E", "F"}
UnhexifyCases == {[k |-> "unhexify", h |-> h] : h \in {x \in UNION {[1..n -> HexAlpha] : n \in 0..HMax} : MineN(Len(x) + (IF Len(x) > 1 THEN DigitVal(x[2]) ELSE 0))}}

BinizeCases == UNION {{[k |-> "binize", n |-> n, size |-> s] : n \in {x \in 0..(2^s - 1) : MineN(x)}} : s \in 0..BMax}
UnbinizeCases == {[k |-> "unbinize", u |-> u] : u \in {x \in UNION {[1..n -> {"0", "1"}] : n \in 0..BMax} : MineN(Len(x) + Unbinize(x))}}

SignCases == UNION {{[k |-> "sign", x |-> x, n |-> n] : x \in {y \in 0..(2^n - 1) : MineN(y)}} : n \in 1..SMax}
             \cup {y \in UNION {{[k |-> "sign", x |-> x, n |-> n] : x \in {0, 1, 2^(n - 1) - 1, 2^(n - 1), 2^(n - 1) + 1, 2^n - 1}} : n \in (SMax + 1)..30} : MineN(y.n)}

FileCases == JsonDeserialize(IOEnv.CASES_FILE)          \* sequence of records, k in {"wpack", "wunpack", "wbytify", "wsign", ...}

Cases == SetToSeq(PackCases) \o SetToSeq(UnpackCases) \o SetToSeq(IntoCases) \o SetToSeq(ErrCases) \o SetToSeq(BytifyCases)
         \o SetToSeq(UnbytifyCases) \o SetToSeq(HexifyCases) \o SetToSeq(UnhexifyCases) \o SetToSeq(BinizeCases)
         \o SetToSeq(UnbinizeCases) \o SetToSeq(SignCases) \o FileCases

\* ------------------------------------------------------------------ the table (input -> output)
ValBits(v) == BitsOf(v, 19)                                        \* enumerated field values are below 2^19
BVals(vals) == [i \in DOMAIN vals |-> ValBits(vals[i])]
Row(x) ==
    CASE x.k = "pack" ->
            LET bv == BVals(x.vals)
                p == Pack(x.fmt, bv, None, FALSE)
                u == Ints(Unpack(x.fmt, p, None, FALSE))
            IN  x @@ [p |-> p, pr |-> Pack(x.fmt, bv, None, TRUE), ps |-> Pack(x.fmt, bv, Need(x.fmt) + 1, FALSE),
                      u |-> u, ub |-> Render(x.fmt, u, TRUE)]
      [] x.k = "unpack" ->
            LET u == Ints(Unpack(x.fmt, x.b, x.size, x.rev)) IN x @@ [u |-> u, ub |-> Render(x.fmt, u, TRUE)]
      [] x.k = "into" -> x @@ PackInto(x.buf, x.fmt, BVals(x.vals), x.size, x.off, x.rev)
      [] x.k = "err" -> x @@ [raises |-> ~Fits(x.fmt, x.size), short |-> Total(x.fmt) > 8 * x.blen]
      [] x.k = "bytify" -> x @@ [b |-> Bytify(x.n, x.size, x.rev, x.strict)]
      [] x.k = "unbytify" -> x @@ [n |-> Unbytify(x.b, x.rev)]
      [] x.k = "hexify" -> x @@ [h |-> Hexify(x.b)]
      [] x.k = "unhexify" -> x @@ [b |-> Unhexify(x.h)]
      [] x.k = "binize" -> x @@ [u |-> Binize(x.n, x.size)]
      [] x.k = "unbinize" -> x @@ [n |-> Unbinize(x.u)]
      [] x.k = "sign" -> x @@ [r |-> SignExtend(x.x, x.n)]
      \* wide cases: numbers are bit strings
      [] x.k = "wpack" ->
            LET p == Pack(x.fmt, x.vals, x.size, x.rev) IN
            x @@ [p |-> p, u |-> Unpack(x.fmt, p, x.size, x.rev)] @@ PackInto(x.buf, x.fmt, x.vals, x.size, x.off, x.rev)
      [] x.k = "wunpack" -> x @@ [u |-> Unpack(x.fmt, x.b, x.size, x.rev)]
      [] x.k = "wbytify" -> x @@ [b |-> BytifyB(x.mag, x.neg, x.size, x.rev, x.strict)]
      [] x.k = "wunbytify" -> x @@ [bits |-> UnbytifyB(x.b, x.rev)]
      [] x.k = "wsign" -> x @@ SignExtendB(x.x)
      [] x.k = "whexify" -> x @@ [h |-> Hexify(x.b)]
      [] x.k = "wunhexify" -> x @@ [b |-> Unhexify(x.h)]
      [] x.k = "wbinize" -> x @@ [u |-> BinizeB(x.bits, x.size)]
      [] x.k = "wunbinize" -> x @@ [bits |-> UnbinizeB(x.u)]

Table == LET cs == Cases IN [i \in 1..Len(cs) |-> LET x == cs[i] IN Row(x)]

\* every case is an initial state (the state IS the case, nothing moves): TLC evaluates the invariants on each
VARIABLE c
Init == c \in {Cases[i] : i \in 1..Len(Cases)}
Next == UNCHANGED c
Spec == Init /\ [][Next]_c

X == c
K == X.k
IsPack == K \in {"pack", "wpack", "into"}
XB == IF K = "wpack" THEN X.vals ELSE BVals(X.vals)                 \* field values as bit strings
XSize == IF K = "pack" THEN None ELSE X.size
XRev == IF K = "pack" THEN FALSE ELSE X.rev

\* ------------------------------------------------------------------ properties
\* (related laws share one invariant so that TLC evaluates Pack / Unpack once per case)
PackLaws == IsPack =>
    LET fmt == X.fmt
        xb == XB
        nb == SizeOf(fmt, XSize)
        pad == 8 * nb - Total(fmt)
        fwd == Pack(fmt, xb, XSize, FALSE)
        bwd == Pack(fmt, xb, XSize, TRUE)
        p == IF XRev THEN bwd ELSE fwd
        expect == Masked(fmt, xb) \o (IF pad > 0 THEN <<Zeros(pad)>> ELSE <<>>)
    IN  /\ Len(fwd) = nb                                        \* exactly size bytes
        \* RoundTrip: unpacking packed bytes returns every value masked to its field width, plus the zero padding field
        /\ Unpack(fmt, p, XSize, XRev) = expect
        \* Mirror: the byte order variants are mirror images, for packing and for unpacking
        /\ bwd = Reverse(fwd)
        /\ Unpack(fmt, Reverse(p), XSize, ~XRev) = expect
        \* SizePads: a larger size only appends zero bytes
        /\ Pack(fmt, xb, nb + 2, FALSE) = fwd \o <<0, 0>>
\* masking on bit strings is reduction modulo 2^w (truth value for one bit fields); values already in range are unchanged
MaskIsMod == K \in {"pack", "into"} => \A i \in DOMAIN X.fmt :
    LET w == X.fmt[i]  v == X.vals[i]  m == ValOf(FieldBits(w, ValBits(v)))
    IN  /\ m = IF w = 1 THEN (IF v = 0 THEN 0 ELSE 1) ELSE v % 2^w
        /\ (v < 2^w) => m = v
\* the packed bytes read as one big endian number are the positional sum of the masked fields
Positional == (K \in {"pack", "into"} /\ SizeOf(X.fmt, XSize) <= 3) =>
    LET fmt == X.fmt
        nb == SizeOf(fmt, XSize)
        m == Ints(Masked(fmt, XB))
        terms == [i \in DOMAIN fmt |-> m[i] * 2^(8 * nb - Total(SubSeq(fmt, 1, i)))]
    IN  Unbytify(Pack(fmt, XB, XSize, FALSE), FALSE) = FoldLeft(LAMBDA a, t : a + t, 0, terms)
\* packing into a buffer: the window holds the packed bytes, everything else is as before, the size is returned
IntoFrame == K \in {"into", "wpack"} =>
    LET r == PackInto(X.buf, X.fmt, XB, X.size, X.off, X.rev)
        p == Pack(X.fmt, XB, X.size, X.rev)
        out == r.out
    IN  /\ r.ret = SizeOf(X.fmt, X.size)
        /\ Len(out) = Max2(Len(X.buf), X.off + r.ret)
        /\ SubSeq(out, X.off + 1, X.off + r.ret) = p
        /\ \A j \in 1..Len(X.buf) : (j <= X.off \/ j > X.off + r.ret) => out[j] = X.buf[j]
\* unpacking arbitrary bytes and packing the fields again (with the padding field) restores the bytes read;
\* the fields have the widths of the format; the reversed buffer read in the other order gives the same fields
UnpackLaws == K \in {"unpack", "wunpack"} =>
    LET fmt == X.fmt
        nb == SizeOf(fmt, X.size)
        u == Unpack(fmt, X.b, X.size, X.rev)
        pf == Padded(fmt, X.size)
    IN  /\ Len(u) = Len(pf)
        /\ \A i \in DOMAIN pf : Len(u[i]) = pf[i]
        /\ Pack(pf, u, nb, FALSE) = SubSeq(Mirror(X.b, X.rev), 1, nb)
        /\ Unpack(fmt, Reverse(X.b), X.size, ~X.rev) = u
\* booleans exactly for the one bit fields of the format when requested; every field within its width
BooleanRender == K \in {"pack", "unpack"} =>
    LET r == Row(X)
        u == r.u
        ub == r.ub
        pf == Padded(X.fmt, XSize)
    IN  /\ Len(ub) = Len(u)
        /\ \A i \in DOMAIN u : IF i <= Len(X.fmt) /\ X.fmt[i] = 1 THEN ub[i] = (u[i] = 1) /\ u[i] \in {0, 1}
                               ELSE ub[i] = u[i] /\ u[i] \in 0..(2^pf[i] - 1)
\* integers and bytes are mutual inverses; order variants mirror; negative / strict is two's complement truncation
BytifyInverse == K = "bytify" =>
    LET b == Bytify(X.n, X.size, X.rev, X.strict)
        m == IF X.n < 0 \/ X.strict THEN X.n % (256^X.size) ELSE X.n
    IN  /\ Unbytify(b, X.rev) = m
        /\ Len(b) >= X.size /\ ((X.n < 0 \/ X.strict) => Len(b) = X.size)
        /\ (Len(b) > X.size => b[IF X.rev THEN Len(b) ELSE 1] # 0)                   \* only as long as needed
        /\ Bytify(X.n, X.size, ~X.rev, X.strict) = Reverse(b)
        /\ b = BytifyB(NatBits(IF X.n < 0 THEN -X.n ELSE X.n), X.n < 0, X.size, X.rev, X.strict)   \* bit string form agrees
        /\ (X.n < 0 /\ X.size > 0 /\ -X.n <= 2^(8 * X.size - 1)) => SignExtend(Unbytify(b, X.rev), 8 * X.size) = X.n
UnbytifyInverse == K = "unbytify" =>
    /\ Bytify(Unbytify(X.b, X.rev), Len(X.b), X.rev, TRUE) = X.b
    /\ Unbytify(Reverse(X.b), ~X.rev) = Unbytify(X.b, X.rev)
    /\ (Len(X.b) > 0 /\ Mirror(X.b, X.rev)[1] # 0) => Bytify(Unbytify(X.b, X.rev), 0, X.rev, FALSE) = X.b
    /\ ValOf(UnbytifyB(X.b, X.rev)) = Unbytify(X.b, X.rev)
HexInverse ==
    /\ K \in {"hexify", "whexify"} => Unhexify(Hexify(X.b)) = X.b /\ Len(Hexify(X.b)) = 2 * Len(X.b)
    /\ K \in {"unhexify", "wunhexify"} => (\A i \in DOMAIN X.h : IsHex(X.h[i])) /\ Hexify(Unhexify(X.h)) = LowerHex(Even(X.h))
BinInverse ==
    /\ K = "binize" => Unbinize(Binize(X.n, X.size)) = X.n /\ Len(Binize(X.n, X.size)) = X.size
                       /\ Binize(X.n, X.size) = BinizeB(NatBits(X.n), X.size)
    /\ K = "unbinize" => Binize(Unbinize(X.u), Len(X.u)) = X.u /\ ValOf(UnbinizeB(X.u)) = Unbinize(X.u)
    /\ K = "wbinize" => UnbinizeB(BinizeB(X.bits, X.size)) = Low(X.bits, X.size)
    /\ K = "wunbinize" => BinizeB(UnbinizeB(X.u), Len(X.u)) = X.u
\* sign extension: the unique number of the two's complement range congruent to x modulo 2^n
SignIsTwosComplement ==
    /\ K = "sign" => LET r == SignExtend(X.x, X.n)  s == SignExtendB(BitsOf(X.x, X.n)) IN
                     /\ -(2^(X.n - 1)) <= r /\ r < 2^(X.n - 1)
                     /\ (r - X.x) % 2^X.n = 0
                     /\ (r < 0) = (X.x \div 2^(X.n - 1) = 1)
                     /\ r = IF s.neg THEN -ValOf(s.mag) ELSE ValOf(s.mag)
    /\ K = "wsign" => LET s == SignExtendB(X.x) IN
                      /\ s.neg = (X.x[1] = 1)
                      /\ (IF s.neg THEN TwoC(s.mag, Len(X.x)) ELSE s.mag) = X.x           \* back to the n bit pattern
                      /\ BytifyB(s.mag, s.neg, (Len(X.x) + 7) \div 8, FALSE, TRUE)          \* bytify of the signed number
                            = Octets(Low([i \in 1..(8 * ((Len(X.x) + 7) \div 8)) |-> X.x[1]] \o X.x, 8 * ((Len(X.x) + 7) \div 8)))
WideBytify == K = "wbytify" =>
    LET b == BytifyB(X.mag, X.neg, X.size, X.rev, X.strict) IN
    /\ Len(b) >= X.size
    /\ BytifyB(X.mag, X.neg, X.size, ~X.rev, X.strict) = Reverse(b)
    /\ (~X.neg /\ ~X.strict) => Strip(UnbytifyB(b, X.rev)) = Strip(X.mag)
    /\ (X.neg \/ X.strict) => /\ Len(b) = X.size
                              /\ UnbytifyB(b, X.rev) = (IF X.neg THEN TwoC(X.mag, 8 * X.size) ELSE Low(X.mag, 8 * X.size))

ASSUME JsonSerialize(IOEnv.TABLE_OUT, Table)
ASSUME PrintT(<<"CASES", Len(Cases), Len(FileCases)>>)
=============================================================================
